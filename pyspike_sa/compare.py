"""Engine C: comparer of two structured programs under a renaming.

`Comparer(a, b).run()` walks the IR of two functions in lock step.  Straight-line regions
are executed symbolically (local value numbering on the canonical terms of engine B), so
temporaries, statement order, `x += e` vs `x = x + e` and tuple assignments do not matter;
conditions of paired compound statements, array stores, call effects, loop-entry states,
branch-exit states and returned values must be canonically equal.  The same machinery is
used for sibling comparison (py vs pyx), for train-swap symmetry (P vs sigma(P)), and for
state projections (profile kernel vs single-pass kernel, with output variables ignored).

Outcomes: `mismatches` (aligned point, canonically different -> violation candidates) and
`inconclusive` (programs could not be aligned -> ANALYSIS-ERROR).
"""
from __future__ import annotations

import ast
import itertools
from dataclasses import dataclass, field
from typing import Callable, Dict, List, Optional, Set, Tuple

from . import canon as C
from .canon import Env, CanonError
from .frontend import FuncInfo
from .ir import IRBuilder, assigned_names, stored_arrays, read_names

K_ATOM = ('n', '%K')   # bound variable of lifted element-wise stores


@dataclass
class Side:
    fi: FuncInfo
    rename: Dict[str, str] = field(default_factory=dict)
    ignore: Set[str] = field(default_factory=set)        # canonical names not compared (projection)
    call_adapters: Dict[str, Callable] = field(default_factory=dict)
    lens: Dict[str, Callable[[Env], C.Term]] = field(default_factory=dict)  # canonical array name -> length builder
    rewrites: List[Callable] = field(default_factory=list)  # side-specific context rewrites: f(ctx) -> {atom: poly}
    negate: Set[str] = field(default_factory=set)          # canonical names whose stored/assigned values are negated (antisymmetry)
    label: str = ''
    init: Dict[str, object] = field(default_factory=dict)  # canonical name -> initial canonical value
    body: Optional[list] = None      # IR items (built lazily)
    notes: list = field(default_factory=list)

    def cn(self, n: str) -> str:
        return self.rename.get(n, n)


@dataclass
class Mismatch:
    kind: str
    what: str
    loc_a: str
    loc_b: str
    form_a: str
    form_b: str
    ctx: str

    def text(self) -> str:
        return (f"[{self.kind}] {self.what}\n    A {self.loc_a}: {self.form_a}\n    B {self.loc_b}: {self.form_b}"
                + (f"\n    in: {self.ctx}" if self.ctx else ''))

    def key(self) -> str:
        return f"{self.kind}|{self.what}|{self.form_a}|{self.form_b}"


class Inconclusive(Exception):
    pass


class Region:
    def __init__(self):
        self.stores: Dict[str, list] = {}
        self.effects: list = []
        self.assigned: Dict[str, ast.AST] = {}
        self.allocs: Dict[str, tuple] = {}
        self.outputs: Dict[str, list] = {}


class Comparer:
    def __init__(self, a: Side, b: Side, *, cursors: Optional[List[Tuple[str, str]]] = None,
                 allow_reorder: bool = False, tie_facts: bool = True,
                 bool_int_equiv: bool = True, title: str = ''):
        self.a, self.b = a, b
        self.cursors = cursors or []        # canonical cursor names for which the `<=` invariant was verified
        self.allow_reorder = allow_reorder
        self.tie_facts = tie_facts
        self.title = title
        self.mismatches: List[Mismatch] = []
        self.points = 0                     # aligned comparison points
        self.site = 0
        self.info: List[str] = []
        self.alloc_kind_diffs: list = []
        self.hook_a: Optional[Callable] = None    # side-specific fact hooks: f(facts) -> extra facts
        self.hook_b: Optional[Callable] = None
        self.extra_params_a: Set[str] = set()
        self.return_map: Optional[Callable] = None   # transformation applied to side b's returned term
        self.initial_facts: Dict[tuple, C.Term] = {}   # equalities valid throughout (checked preconditions)
        self.exit_facts: List[tuple] = []              # negated conditions of the while loops already passed
        self.skip_signature = False
        for s in (a, b):
            if s.body is None:
                bld = IRBuilder()
                s.body = bld.build(s.fi.node.body)
                s.notes = bld.notes

    # ------------------------------------------------------------------ helpers
    def loc(self, side: Side, node) -> str:
        ln = getattr(node, 'lineno', None)
        if ln is None:
            ln = side.fi.node.lineno
        return f"{side.fi.path}:{ln}"

    def mism(self, kind, what, na, nb, fa, fb, ctx):
        self.mismatches.append(Mismatch(kind, what, self.loc(self.a, na), self.loc(self.b, nb),
                                        fa if isinstance(fa, str) else C.show(fa),
                                        fb if isinstance(fb, str) else C.show(fb), ' / '.join(ctx)))

    def norm(self, t, facts: Dict[tuple, C.Term]):
        if facts:
            # iterate to a fixpoint (facts may expose further rewrites), bounded
            for _ in range(4):
                t2 = C.subst_atoms(t, facts)
                if t2 == t:
                    break
                t = t2
        return t

    def eq(self, ta, tb, fa, fb) -> bool:
        self.points += 1
        if ta == tb:
            return True
        na, nb = self.norm(ta, fa), self.norm(tb, fb)
        if na == nb:
            return True
        return False

    def eq_cond(self, ca, cb, fa, fb) -> bool:
        self.points += 1
        if ca == cb:
            return True
        na = C.cond_set_form(self.norm(ca, fa))
        nb = C.cond_set_form(self.norm(cb, fb))
        return na == nb

    # ------------------------------------------------------------------ entry
    def make_env(self, side: Side) -> Env:
        env = Env(side.rename)
        env.call_adapters = side.call_adapters
        for nm, fn in side.lens.items():
            env.lens[('n', nm)] = fn(env)
        for nm, v in side.init.items():
            env.vals[nm] = v
        env.negated = set(side.negate)
        return env

    def _infer_local_bijection(self):
        """Locals that exist on one side only are paired in order of first assignment (a one-sided renaming of a
        local must not break the comparison); a wrong pairing only makes the comparison fail."""
        if self.a.fi is self.b.fi:
            return
        def firsts(side: Side):
            seen: List[str] = []
            params = {x.arg for x in side.fi.node.args.args}
            for n in ast.walk(side.fi.node):
                pass
            # source order of first stores
            stores = [(n.lineno, n.col_offset, n.id) for n in ast.walk(side.fi.node)
                      if isinstance(n, ast.Name) and isinstance(n.ctx, ast.Store)]
            for _l, _c, nm in sorted(stores):
                cn = side.cn(nm)
                if cn not in seen and nm not in params:
                    seen.append(cn)
            return seen
        fa_, fb_ = firsts(self.a), firsts(self.b)
        only_a = [n for n in fa_ if n not in fb_]
        only_b = [n for n in fb_ if n not in fa_]
        if only_a and len(only_a) == len(only_b):
            inv_b = {v: k for k, v in self.b.rename.items()}
            ren = dict(self.b.rename)
            for x, y in zip(only_a, only_b):
                raw = inv_b.get(y, y)
                ren[raw] = x
            self.b.rename = ren
            self.info.append(f"{self.title}: locals paired by order of first assignment: " +
                             ', '.join(f"{y}->{x}" for x, y in zip(only_a, only_b)))

    def run(self):
        ea, eb = self.make_env(self.a), self.make_env(self.b)
        if not self.skip_signature:
            self.compare_params()
        try:
            self.seq(self.a.body, self.b.body, ea, eb, dict(self.initial_facts), dict(self.initial_facts), [], set(), set())
        except CanonError as e:
            raise Inconclusive(f"{self.title}: canonicaliser: {e}")
        return self

    def compare_params(self):
        pa = [x.arg for x in self.a.fi.node.args.args if x.arg not in self.extra_params_a]
        pb = [x.arg for x in self.b.fi.node.args.args]
        ma = [self.a.cn(x) for x in pa]
        mb = [self.b.cn(x) for x in pb]
        self.points += 1
        if ma != mb:
            self.mism('signature', 'parameter lists differ', self.a.fi.node, self.b.fi.node,
                      ', '.join(ma), ', '.join(mb), [])
            return
        da = self.a.fi.node.args.defaults
        db = self.b.fi.node.args.defaults
        if self.extra_params_a:
            da = []
            db = []
        ea, eb = Env(), Env()
        la = [None] * (len(pa) - len(da)) + list(da)
        lb = [None] * (len(pb) - len(db)) + list(db)
        for n, x, y in zip(ma, la, lb):
            self.points += 1
            if (x is None) != (y is None):
                self.mism('signature', f'default of {n} present on one side only', self.a.fi.node,
                          self.b.fi.node, ast.unparse(x) if x else '-', ast.unparse(y) if y else '-', [])
                continue
            if x is None:
                continue
            cx, cy = self._default_val(x), self._default_val(y)
            if cx != cy:
                self.mism('signature', f'default of {n} differs', x, y, ast.unparse(x), ast.unparse(y), [])

    @staticmethod
    def _default_val(node):
        if isinstance(node, ast.Constant):
            v = node.value
            if isinstance(v, bool):
                return float(int(v))     # typed-int flag vs bool (tabled divergence)
            if isinstance(v, (int, float)):
                return float(v)
            return ('k', v)
        return ast.dump(node)

    # ------------------------------------------------------------------ symbolic execution
    _PLAIN_CALLS = {'len', 'min', 'max', 'abs', 'range', 'xrange', 'zip', 'enumerate', 'float', 'int', 'bool', 'sum', 'sorted', 'list',
                    'tuple', 'fmin', 'fmax', 'fabs', 'sqrt', 'isinstance', 'print', 'round', 'any', 'all', 'reversed', 'slice', 'str'}

    def _escaping_arrays(self, st, env: Env, side: Side):
        """A locally allocated array (or a tuple of such arrays kept in a local) that is handed to a helper function of the
        package whose body was not folded into this one: the stores it makes are not visible here - the comparison of the
        two sides' stores cannot be decided."""
        for n in ast.walk(st):
            if isinstance(n, ast.Call) and isinstance(n.func, ast.Name) and n.func.id not in self._PLAIN_CALLS \
                    and n.func.id not in env.call_adapters:
                for a in list(n.args) + [k.value for k in n.keywords]:
                    names = [x.id for x in ast.walk(a) if isinstance(x, ast.Name)] if isinstance(a, (ast.Name, ast.Tuple, ast.List)) else []
                    for nm in names:
                        cn = env.cn(nm)
                        if ('n', cn) in env.lens and cn in self._allocated.get(id(side), set()) or cn in self._bundles.get(id(side), set()):
                            raise Inconclusive(f"{self.title}: the locally allocated array `{nm}` is handed to `{n.func.id}(...)` at "
                                               f"{self.loc(side, st)}; what that helper stores into it is not visible in this function")

    def exec_simple(self, st, env: Env, reg: Region, side: Side):
        if not hasattr(self, '_allocated'):
            self._allocated, self._bundles = {}, {}
        self._escaping_arrays(st, env, side)
        if isinstance(st, ast.Assign) and len(st.targets) == 1 and isinstance(st.targets[0], ast.Name) \
                and isinstance(st.value, (ast.Tuple, ast.List)) and st.value.elts \
                and all(isinstance(e, ast.Name) and env.cn(e.id) in self._allocated.get(id(side), set()) for e in st.value.elts):
            self._bundles.setdefault(id(side), set()).add(env.cn(st.targets[0].id))
        if isinstance(st, ast.Assign):
            for tgt in st.targets:
                self._assign(tgt, st.value, env, reg, side, st)
            return
        if isinstance(st, ast.AnnAssign):
            if st.value is not None:
                self._assign(st.target, st.value, env, reg, side, st)
            return
        if isinstance(st, ast.AugAssign):
            opnode = ast.BinOp(left=self._as_load(st.target), op=st.op, right=st.value)
            ast.copy_location(opnode, st)
            ast.fix_missing_locations(opnode)
            self._assign(st.target, opnode, env, reg, side, st)
            return
        if isinstance(st, ast.Expr):
            reg.effects.append((C.canon_expr(st.value, env), st))
            return
        raise Inconclusive(f"{self.loc(side, st)}: simple statement {type(st).__name__}")

    @staticmethod
    def _as_load(t):
        t2 = ast.parse(ast.unparse(t), mode='eval').body
        return t2

    def _assign(self, tgt, valnode, env: Env, reg: Region, side: Side, st):
        if isinstance(tgt, (ast.Tuple, ast.List)):
            if isinstance(valnode, (ast.Tuple, ast.List)) and len(valnode.elts) == len(tgt.elts):
                vals = [C.canon_expr(v, env) for v in valnode.elts]
            else:
                v = C.canon_expr(valnode, env)
                vals = [C.atom(('proj', v, k)) for k in range(len(tgt.elts))]
            for t, v in zip(tgt.elts, vals):
                self._bind(t, v, env, reg, side, st)
            return
        self._bind(tgt, C.canon_expr(valnode, env), env, reg, side, st)

    def _bind(self, tgt, val, env: Env, reg: Region, side: Side, st):
        if isinstance(tgt, ast.Name):
            cn = env.cn(tgt.id)
            sa = C.single_atom(val) if C.is_poly(val) else val
            if sa is not None and sa[0] == 'alloc':
                if not hasattr(self, '_allocated'):
                    self._allocated, self._bundles = {}, {}
                self._allocated.setdefault(id(side), set()).add(cn)
                reg.allocs[cn] = (sa[1], sa[2], st, sa[3] if len(sa) > 3 else ())
                env.lens[('n', cn)] = sa[2]
                env.unset(tgt.id)
                env.versions.pop(cn, None)
                return
            env.set(tgt.id, val)
            reg.assigned[cn] = st
            if cn in side.ignore:
                reg.outputs.setdefault(cn, []).append((None, val, st))
            return
        if isinstance(tgt, ast.Subscript):
            if isinstance(tgt.value, ast.Name) and env.cn(tgt.value.id) in env.negated and env.cn(tgt.value.id) not in env.vals:
                base = C.atom(('n', env.cn(tgt.value.id)))
            else:
                base = C.canon_expr(tgt.value, env)
            bsa = C.single_atom(base) if C.is_poly(base) else base
            if bsa is None and isinstance(tgt.value, ast.Name):
                # a local array that holds a computed value (e.g. the result of array arithmetic): the store goes
                # into the array of that name
                bsa = ('n', env.cn(tgt.value.id))
            if bsa is None:
                raise Inconclusive(f"{self.loc(side, st)}: store into computed base")
            root = bsa
            while root[0] == 'sub':
                root = root[1]
            rootname = root[1] if root[0] == 'n' else C.show(root)
            key = C.show(bsa)
            sl = tgt.slice
            neg_it = False
            if isinstance(sl, ast.Slice):
                if sl.step is not None:
                    idx = C.canon_expr(tgt, env)
                    rec = ('store', idx, C.to_poly(val) if C.is_poly(val) else val, st)
                else:
                    lo = C.to_poly(C.canon_expr(sl.lower, env)) if sl.lower is not None else C.ZERO
                    ln = C._len_of(bsa, env)
                    hi = C.to_poly(C.canon_expr(sl.upper, env)) if sl.upper is not None else ln
                    if C.is_const(hi) and C.const_value(hi) < 0:
                        hi = C.add(ln, hi)
                    n = C.sub(hi, lo)
                    elem, lens = self._elementwise(val, env)
                    for l_ in lens:
                        self.points += 1
                        if l_ != n:
                            self.mismatches.append(Mismatch(
                                'slice-length', f'slice assignment to {key}: lengths of the two sides differ',
                                self.loc(side, st), self.loc(side, st), C.show(n), C.show(l_), side.label))
                    rec = ('forall', n, C.add(lo, C.atom(K_ATOM)), C.neg(elem) if neg_it else elem, st)
            else:
                idx = C.canon_expr(sl, env)
                if C.is_poly(idx) and C.is_const(idx) and C.const_value(idx) < 0:
                    idx = C.add(C._len_of(bsa, env), idx)
                v = C.to_poly(val) if C.is_poly(val) else val
                if neg_it and C.is_poly(v):
                    v = C.neg(v)
                rec = ('store', idx, v, st)
            if rootname in side.ignore:
                reg.outputs.setdefault(rootname, []).append(rec)
            else:
                reg.stores.setdefault(key, []).append(rec)
            if root[0] == 'n':
                cur = env.versions.get(root[1])
                env.versions[root[1]] = (cur + 1) if isinstance(cur, int) else (1 if cur is None else f"{cur}+")
            return
        if isinstance(tgt, ast.Attribute):
            base = C.canon_expr(tgt.value, env)
            key = 'attr:' + C.show(base) + '.' + tgt.attr
            reg.stores.setdefault(key, []).append(('store', C.ZERO, val, st))
            return
        raise Inconclusive(f"{self.loc(side, st)}: assignment target {type(tgt).__name__}")

    def _elementwise(self, val, env: Env):
        """Element K of a vector-valued canonical term; returns (term, [lengths of slice operands])."""
        lens = []

        def f(a):
            if a[0] == 'sub' and isinstance(a[2], tuple) and a[2] and a[2][0] == 'slice':
                lo, hi, stp = a[2][1], a[2][2], a[2][3]
                if stp is not None:
                    return None
                lo = lo if lo is not None else C.ZERO
                ln = C._len_of(a[1], env)
                hi = hi if hi is not None else ln
                lens.append(C.sub(hi, lo))
                return C.atom(('sub', a[1], C.add(lo, C.atom(K_ATOM))))
            return None
        t = C.rebuild(C.to_poly(val) if C.is_poly(val) else val, f)
        return t, lens

    def liftable_for(self, item) -> bool:
        _, target, it, body, node = item
        if not isinstance(target, ast.Name):
            return False
        if not (isinstance(it, ast.Call) and isinstance(it.func, ast.Name) and it.func.id in ('range', 'xrange')
                and len(it.args) == 1):
            return False
        if not body or any(b[0] != 'simple' for b in body):
            return False
        has_store = False
        for b in body:
            st = b[1]
            if isinstance(st, ast.Assign) and all(isinstance(t, (ast.Name, ast.Subscript)) for t in st.targets):
                has_store |= any(isinstance(t, ast.Subscript) for t in st.targets)
                continue
            return False
        return has_store

    def exec_lifted_for(self, item, env: Env, reg: Region, side: Side):
        _, target, it, body, node = item
        n = C.to_poly(C.canon_expr(it.args[0], env))
        e2 = env.copy()
        e2.set(target.id, C.atom(K_ATOM))
        r2 = Region()
        for b in body:
            self.exec_simple(b[1], e2, r2, side)
        for key, recs in r2.stores.items():
            for rec in recs:
                if rec[0] != 'store':
                    raise Inconclusive(f"{self.loc(side, node)}: nested slice store in lifted loop")
                reg.stores.setdefault(key, []).append(('forall', n, rec[1], rec[2], rec[3]))
        for key, recs in r2.outputs.items():
            reg.outputs.setdefault(key, []).extend(recs)
        for cn, st in r2.assigned.items():
            # loop temporaries: value after the loop is not modelled
            env.vals[cn] = C.atom(('n', f"{cn}@after-loop:{side.label}"))
            reg.assigned[cn] = st
        reg.assigned[env.cn(target.id)] = node
        env.vals[env.cn(target.id)] = C.atom(('n', f"{env.cn(target.id)}@after-loop:{side.label}"))
        for root in stored_arrays(body):
            env.versions[env.cn(root)] = f"L{getattr(node, 'lineno', 0)}"

    # ------------------------------------------------------------------ sequence comparison
    def is_simple(self, it) -> bool:
        return it[0] == 'simple' or (it[0] == 'for' and self.liftable_for(it)) or it[0] in ('def', 'import')

    def run_region(self, items, k, env, side) -> Tuple[Region, int]:
        reg = Region()
        while k < len(items) and self.is_simple(items[k]):
            it = items[k]
            if it[0] == 'simple':
                self.exec_simple(it[1], env, reg, side)
            elif it[0] == 'for':
                self.exec_lifted_for(it, env, reg, side)
            k += 1
        return reg, k

    def compare_regions(self, ra: Region, rb: Region, fa, fb, ctx, ea: Env, eb: Env):
        # stores, per array, in order
        keys = sorted(set(ra.stores) | set(rb.stores))
        for key in keys:
            la, lb = ra.stores.get(key, []), rb.stores.get(key, [])
            if len(la) != len(lb):
                # try to identify the unmatched store for the report
                na = la[len(lb)][-1] if len(la) > len(lb) else (la[-1][-1] if la else self.a.fi.node)
                nb = lb[len(la)][-1] if len(lb) > len(la) else (lb[-1][-1] if lb else self.b.fi.node)
                self.points += 1
                self.mism('store-count', f'number of stores into {key} differs ({len(la)} vs {len(lb)})',
                          na, nb, '; '.join(self._show_rec(r) for r in la) or '-',
                          '; '.join(self._show_rec(r) for r in lb) or '-', ctx)
                continue
            rootk = key.split('[')[0]
            if rootk in self.b.negate:
                lb = [(r[0],) + tuple(r[1:-2]) + (C.neg(r[-2]) if C.is_poly(r[-2]) else r[-2], r[-1]) for r in lb]
            for x, y in zip(la, lb):
                if x[0] != y[0]:
                    self.points += 1
                    self.mism('store', f'store into {key}: scalar vs element-wise', x[-1], y[-1],
                              self._show_rec(x), self._show_rec(y), ctx)
                    continue
                ok = True
                for p, q in zip(x[1:-1], y[1:-1]):
                    if not self.eq(p, q, fa, fb):
                        ok = False
                if not ok:
                    self.mism('store', f'store into {key} differs', x[-1], y[-1],
                              self._show_rec(x, fa), self._show_rec(y, fb), ctx)
        # call effects
        if len(ra.effects) != len(rb.effects):
            self.points += 1
            na = ra.effects[-1][1] if ra.effects else self.a.fi.node
            nb = rb.effects[-1][1] if rb.effects else self.b.fi.node
            self.mism('effects', 'number of effectful calls differs', na, nb,
                      '; '.join(C.show(e[0]) for e in ra.effects) or '-',
                      '; '.join(C.show(e[0]) for e in rb.effects) or '-', ctx)
        else:
            for (x, nx), (y, ny) in zip(ra.effects, rb.effects):
                if not self.eq(x, y, fa, fb):
                    self.mism('effects', 'effectful call differs', nx, ny, self.norm(x, fa), self.norm(y, fb), ctx)
        # allocations
        for cn in sorted(set(ra.allocs) & set(rb.allocs)):
            ka, sa, na, kwa = ra.allocs[cn]
            kb, sb, nb, kwb = rb.allocs[cn]
            if not self.eq(sa, sb, fa, fb):
                self.mism('alloc', f'allocated size of {cn} differs', na, nb, sa, sb, ctx)
            # element type / layout keywords: no keyword, dtype=float, np.float64, np.double all mean float64
            def _kw(kws):
                out = []
                for k_, v_ in kws:
                    sv = C.show(v_)
                    if k_ == 'dtype' and sv in ('float', 'np.float64', 'np.double', 'numpy.float64', 'DTYPE'):
                        continue
                    out.append((k_, v_))
                return tuple(out)
            qa, qb = _kw(kwa), _kw(kwb)
            if len(qa) != len(qb) or any(x[0] != y[0] or not self.eq(x[1], y[1], fa, fb) for x, y in zip(qa, qb)):
                self.mism('alloc', f'element type / keywords of the allocation of {cn} differ', na, nb,
                          ', '.join(f"{k_}={C.show(v_)}" for k_, v_ in qa) or 'float64 (default)',
                          ', '.join(f"{k_}={C.show(v_)}" for k_, v_ in qb) or 'float64 (default)', ctx)
            if ka != kb:
                self.info.append(f"{self.title}: allocation kind of {cn}: np.{ka} vs np.{kb} "
                                 f"({self.loc(self.a, na)} / {self.loc(self.b, nb)})")
                self.alloc_kind_diffs.append((cn, ka, kb, na, nb))

    def _show_rec(self, r, facts=None) -> str:
        f = (lambda t: self.norm(t, facts)) if facts else (lambda t: t)
        if r[0] == 'store':
            return f"[{C.show(f(r[1]))}] = {C.show(f(r[2]))}"
        return f"forall K<{C.show(f(r[1]))}: [{C.show(f(r[2]))}] = {C.show(f(r[3]))}"

    def compare_vars(self, ea: Env, eb: Env, names: Set[str], asg_a: Dict[str, ast.AST], asg_b: Dict[str, ast.AST],
                     fa, fb, ctx, live: Set[str], what: str):
        for cn in sorted(names):
            if cn in self.a.ignore or cn in self.b.ignore:
                continue
            in_a, in_b = cn in asg_a, cn in asg_b
            va = ea.vals.get(cn, C.atom(('n', cn)))
            vb = eb.vals.get(cn, C.neg(C.atom(('n', cn))) if cn in self.b.negate else C.atom(('n', cn)))
            if cn in self.b.negate:
                vb = C.neg(C.to_poly(vb))
            if self.eq(va, vb, fa, fb):
                continue
            if cn not in live:
                # dead temporary: not compared, but poisoned so that an unexpected later use is seen
                ea.vals[cn] = C.atom(('n', f"{cn}@dead:A"))
                eb.vals[cn] = C.atom(('n', f"{cn}@dead:B"))
                continue
            na = asg_a.get(cn, self.a.fi.node)
            nb = asg_b.get(cn, self.b.fi.node)
            self.mism('value', f'{what}: value of `{cn}` differs', na, nb, self.norm(va, fa), self.norm(vb, fb), ctx)

    def seq(self, ia: list, ib: list, ea: Env, eb: Env, fa: dict, fb: dict, ctx: list,
            cont_a: Set[str], cont_b: Set[str], ret_ok: bool = True):
        """Compare two item sequences. cont_*: names read in the continuation (for liveness)."""
        ka = kb = 0
        asg_a: Dict[str, ast.AST] = {}
        asg_b: Dict[str, ast.AST] = {}
        while True:
            ra, ka2 = self.run_region(ia, ka, ea, self.a)
            rb, kb2 = self.run_region(ib, kb, eb, self.b)
            self.compare_regions(ra, rb, fa, fb, ctx, ea, eb)
            self.compare_outputs(ra, rb, fa, fb, ctx)
            asg_a.update(ra.assigned)
            asg_b.update(rb.assigned)
            ka, kb = ka2, kb2
            if ka >= len(ia) and kb >= len(ib):
                break
            if ka >= len(ia) or kb >= len(ib):
                side, items, k = (self.b, ib, kb) if ka >= len(ia) else (self.a, ia, ka)
                it = items[k]
                if self._ignorable_item(it, side):
                    if side is self.a:
                        ka += 1
                    else:
                        kb += 1
                    continue
                node = it[-1]
                self.points += 1
                self.mismatches.append(Mismatch(
                    'structure', f"`{it[0]}` statement has no counterpart on the other side",
                    self.loc(self.a, node if side is self.a else self.a.fi.node),
                    self.loc(self.b, node if side is self.b else self.b.fi.node),
                    self._item_text(it) if side is self.a else '-', self._item_text(it) if side is self.b else '-',
                    ' / '.join(ctx)))
                if side is self.a:
                    ka += 1
                else:
                    kb += 1
                continue
            xa, xb = ia[ka], ib[kb]
            if self.allow_reorder and not self._items_match(xa, xb, ea, eb, fa, fb):
                # sigma mode: the renamed program may list independent statements in another order
                j = self._find_commuting(ib, kb, xa, ea, eb, fa, fb)
                if j is not None:
                    ib = ib[:kb] + [ib[j]] + ib[kb:j] + ib[j + 1:]
                    xb = ib[kb]
            # `if c: <exit> [else: B]` followed by REST  ==  `if c: <exit> else: B; REST`: spell both sides alike
            if xa[0] == 'if' and xb[0] == 'if':
                if ka + 1 < len(ia) and all(self._terminates_deep(alt[1]) for alt in xa[1]):
                    xa = ('if', xa[1], list(xa[2]) + ia[ka + 1:], xa[-1])
                    ia = ia[:ka] + [xa]
                if kb + 1 < len(ib) and all(self._terminates_deep(alt[1]) for alt in xb[1]):
                    xb = ('if', xb[1], list(xb[2]) + ib[kb + 1:], xb[-1])
                    ib = ib[:kb] + [xb]
            # `if c: A; return E else: B; return F` on one side, `if c: A' else: B'` + REST (ending in a return) on the
            # other: REST is the end of every arm that does not leave on its own - spell both sides alike
            if xa[0] == 'if' and xb[0] == 'if':
                def _all_leave(x):
                    return bool(x[2]) and all(self._terminates_deep(alt[1]) for alt in x[1]) and self._terminates_deep(x[2])

                def _push(x, rest):
                    alts = [(alt[0], list(alt[1]) + ([] if self._terminates_deep(alt[1]) else list(rest))) + tuple(alt[2:]) for alt in x[1]]
                    els = list(x[2]) + ([] if self._terminates_deep(x[2]) else list(rest))
                    return ('if', alts, els, x[-1])
                if _all_leave(xa) and not _all_leave(xb) and xb[2] and kb + 1 < len(ib) and self._terminates_deep(ib[kb + 1:]):
                    xb = _push(xb, ib[kb + 1:])
                    ib = ib[:kb] + [xb]
                elif _all_leave(xb) and not _all_leave(xa) and xa[2] and ka + 1 < len(ia) and self._terminates_deep(ia[ka + 1:]):
                    xa = _push(xa, ia[ka + 1:])
                    ia = ia[:ka] + [xa]
            # one-sided ignorable items (projection mode: output-only statements)
            if xa[0] != xb[0] or not self._same_shape(xa, xb):
                if self._ignorable_item(xa, self.a):
                    self._taint_item(xa, ea, self.a)
                    ka += 1
                    continue
                if self._ignorable_item(xb, self.b):
                    self._taint_item(xb, eb, self.b)
                    kb += 1
                    continue
            if xa[0] != xb[0]:
                raise Inconclusive(f"{self.title}: cannot align `{xa[0]}` at {self.loc(self.a, xa[-1])} with "
                                   f"`{xb[0]}` at {self.loc(self.b, xb[-1])}")
            rest_a = read_names(ia[ka + 1:]) | cont_a
            rest_b = read_names(ib[kb + 1:]) | cont_b
            kind = xa[0]
            self.site += 1
            if kind == 'return':
                self.cmp_return(xa, xb, ea, eb, fa, fb, ctx)
                ka += 1
                kb += 1
                # anything after a return is unreachable
                break
            elif kind == 'if':
                # look-ahead: independent adjacent ifs may be swapped (sigma mode)
                if self.allow_reorder and not self._guards_match(xa, xb, ea, eb, fa, fb):
                    j = self._find_commuting(ib, kb, xa, ea, eb, fa, fb)
                    if j is not None:
                        ib = ib[:kb] + [ib[j]] + ib[kb:j] + ib[j + 1:]
                        xb = ib[kb]
                self.cmp_if(xa, xb, ea, eb, fa, fb, ctx, rest_a, rest_b, asg_a, asg_b)
            elif kind == 'while':
                self.cmp_loop(xa, xb, ea, eb, fa, fb, ctx, rest_a, rest_b, asg_a, asg_b)
            elif kind == 'for':
                self.cmp_loop(xa, xb, ea, eb, fa, fb, ctx, rest_a, rest_b, asg_a, asg_b)
            elif kind == 'jump':
                self.points += 1
                if xa[1] != xb[1]:
                    self.mism('jump', 'break/continue differs', xa[-1], xb[-1], xa[1], xb[1], ctx)
            elif kind == 'raise':
                self.points += 1
            else:
                raise Inconclusive(f"{self.title}: item kind `{kind}` at {self.loc(self.a, xa[-1])} not modelled")
            ka += 1
            kb += 1
        return asg_a, asg_b

    def _same_shape(self, xa, xb) -> bool:
        return True

    def _item_text(self, it) -> str:
        node = it[-1]
        try:
            s = ast.unparse(node)
        except Exception:
            s = it[0]
        s = s.split('\n')[0]
        return s[:160]

    def _ignorable_item(self, it, side: Side) -> bool:
        """An item that only writes ignored (output) names."""
        if not side.ignore:
            return False
        if it[0] in ('if', 'while', 'for'):
            names = assigned_names([it]) | stored_arrays([it])
            names = {side.cn(n) for n in names}
            return bool(names) and names <= side.ignore
        return False

    def _taint_item(self, it, env: Env, side: Side):
        for n in assigned_names([it]):
            env.vals[side.cn(n)] = C.atom(('n', f"{side.cn(n)}@out:{side.label}"))

    # ------------------------------------------------------------------ outputs (projection mode)
    def compare_outputs(self, ra: Region, rb: Region, fa, fb, ctx):
        pass  # projections compare outputs through dedicated template rules

    # ------------------------------------------------------------------ return
    def cmp_return(self, xa, xb, ea, eb, fa, fb, ctx):
        va = C.canon_expr(xa[1], ea) if xa[1] is not None else C.atom(('k', None))
        vb = C.canon_expr(xb[1], eb) if xb[1] is not None else C.atom(('k', None))
        if self.a.ignore or self.b.ignore:
            self.points += 1
            return
        if self.return_map is not None:
            vb = self.return_map(vb)
        if not self.eq(va, vb, fa, fb):
            self.mism('return', 'returned value differs', xa[-1], xb[-1], self.norm(va, fa), self.norm(vb, fb), ctx)

    def _neg_return(self, v, side: Side):
        return v

    # ------------------------------------------------------------------ if
    def _alts(self, x, env: Env, facts, side: Side):
        out = []
        for test, body, node in x[1]:
            out.append((C.canon_cond(test, env), body, node))
        return out

    def _guards_match(self, xa, xb, ea, eb, fa, fb) -> bool:
        try:
            ca = C.canon_cond(xa[1][0][0], ea)
            cb = C.canon_cond(xb[1][0][0], eb)
        except CanonError:
            return False
        pts = self.points
        r = self.eq_cond(ca, cb, fa, fb) and len(xa[1]) == len(xb[1])
        self.points = pts
        return r

    def _items_match(self, xa, xb, ea, eb, fa, fb) -> bool:
        """Cheap test whether two items can be each other's counterpart: same kind, and for `if` the same first
        guard, for simple statements the same (canonically named) targets."""
        if xa[0] != xb[0]:
            return False
        if xa[0] == 'if':
            return self._guards_match(xa, xb, ea, eb, fa, fb)
        if xa[0] == 'simple':
            wa = {self.a.cn(n) for n in assigned_names([xa]) | stored_arrays([xa])}
            wb = {self.b.cn(n) for n in assigned_names([xb]) | stored_arrays([xb])}
            return wa == wb
        return True

    def _find_commuting(self, ib, kb, xa, ea, eb, fa, fb) -> Optional[int]:
        """Find an item after position kb in ib that can be the counterpart of xa (see _items_match) and which
        commutes with all the items it would jump over (disjoint writes, no read/write overlap)."""
        j = kb + 1
        moved_over = [ib[kb]]
        while j < len(ib) and ib[j][0] in ('if', 'simple'):
            if self._items_match(xa, ib[j], ea, eb, fa, fb):
                wj = assigned_names([ib[j]]) | stored_arrays([ib[j]])
                rj = read_names([ib[j]])
                for m in moved_over:
                    wm = assigned_names([m]) | stored_arrays([m])
                    rm = read_names([m])
                    if (wj & wm) or (wj & rm) or (wm & rj):
                        return None
                return j
            moved_over.append(ib[j])
            j += 1
        return None

    def cmp_if(self, xa, xb, ea, eb, fa, fb, ctx, rest_a, rest_b, asg_a, asg_b):
        alts_a = self._alts(xa, ea, fa, self.a)
        alts_b = self._alts(xb, eb, fb, self.b)
        else_a, else_b = xa[2], xb[2]
        # two-way if with negated guard: `if c: A else: B`  ==  `if not c: B else: A`
        if len(alts_a) == 1 and len(alts_b) == 1 and not self._cond_eq_quiet(alts_a[0][0], alts_b[0][0], fa, fb) \
                and self._cond_eq_quiet(alts_a[0][0], C.mk_not(alts_b[0][0]), fa, fb):
            alts_b = [(C.mk_not(alts_b[0][0]), else_b, alts_b[0][2])]
            else_b = xb[1][0][1]
        if len(alts_a) != len(alts_b):
            raise Inconclusive(f"{self.title}: if-chains of different length at {self.loc(self.a, xa[-1])} / "
                               f"{self.loc(self.b, xb[-1])}")
        order = list(range(len(alts_b)))
        if not all(self._cond_eq_quiet(alts_a[k][0], alts_b[k][0], fa, fb) for k in range(len(alts_a))):
            # try a permutation of alternatives (requires mutually exclusive guards)
            found = None
            if self.allow_reorder and len(alts_a) <= 3:
                for perm in itertools.permutations(range(len(alts_b))):
                    if all(self._cond_eq_quiet(alts_a[k][0], alts_b[perm[k]][0], fa, fb) for k in range(len(alts_a))):
                        found = list(perm)
                        break
            if found is not None and found != order:
                if not guards_exclusive([a[0] for a in alts_b], assume=self.exit_facts):
                    raise Inconclusive(f"{self.title}: alternatives would need reordering but guards are not "
                                       f"provably exclusive at {self.loc(self.b, xb[-1])}")
                order = found
        assigned_union: Set[str] = set()
        site = self.site
        failed_a: List[tuple] = []
        failed_b: List[tuple] = []
        branches = []
        for k in range(len(alts_a)):
            ca, body_a, na = alts_a[k]
            cb, body_b, nb = alts_b[order[k]]
            if not self.eq_cond(ca, cb, fa, fb):
                self.mism('condition', 'branch condition differs', na.test, nb.test,
                          C.cond_set_form(self.norm(ca, fa)), C.cond_set_form(self.norm(cb, fb)), ctx)
            label = f"if {self._short(na.test)}"
            fa2 = self._branch_facts(fa, failed_a, ca, True, self.hook_a)
            fb2 = self._branch_facts(fb, failed_b, cb, True, self.hook_b)
            branches.append((body_a, body_b, fa2, fb2, ctx + [label], na, nb))
            failed_a.append(ca)
            failed_b.append(cb)
        fa_else = self._branch_facts(fa, failed_a, None, False, self.hook_a)
        fb_else = self._branch_facts(fb, failed_b, None, False, self.hook_b)
        branches.append((else_a, else_b, fa_else, fb_else,
                         ctx + ["else of " + self._short(xa[1][0][0])], xa[-1], xb[-1]))
        wa = {self.a.cn(n) for n in assigned_names([xa])}
        wb = {self.b.cn(n) for n in assigned_names([xb])}
        union = wa | wb
        live = {self.a.cn(n) for n in rest_a} | {self.b.cn(n) for n in rest_b}
        for body_a, body_b, f1, f2, c2, na, nb in branches:
            e1, e2 = ea.copy(), eb.copy()
            sa, sb = self.seq(body_a, body_b, e1, e2, f1, f2, c2, rest_a, rest_b)
            if self._terminates(body_a) and self._terminates(body_b):
                if body_a[-1][0] == 'jump' and body_b[-1][0] == 'jump':
                    # control leaves the branch through break / continue: what the branch computed is still live behind
                    # the loop (break) or in the next iteration (continue)
                    self.compare_vars(e1, e2, union, sa, sb, f1, f2, c2, live, f"at the `{body_a[-1][1]}` that ends the branch")
                continue
            self.compare_vars(e1, e2, union, sa, sb, f1, f2, c2, live, 'at end of branch')
        self._havoc(ea, eb, xa, xb, wa, wb, f"if{site}")
        for n in wa:
            asg_a[n] = xa[-1]
        for n in wb:
            asg_b[n] = xb[-1]

    @staticmethod
    def _terminates(body) -> bool:
        return bool(body) and body[-1][0] in ('return', 'raise', 'jump')

    @classmethod
    def _terminates_deep(cls, body) -> bool:
        if not body:
            return False
        last = body[-1]
        if last[0] in ('return', 'raise', 'jump'):
            return True
        if last[0] == 'if':
            return bool(last[2]) and all(cls._terminates_deep(alt[1]) for alt in last[1]) and cls._terminates_deep(last[2])
        return False

    def _cond_eq_quiet(self, ca, cb, fa, fb) -> bool:
        pts = self.points
        r = self.eq_cond(ca, cb, fa, fb)
        self.points = pts
        return r

    @staticmethod
    def _short(node) -> str:
        try:
            s = ast.unparse(node)
        except Exception:
            s = '?'
        return s if len(s) < 70 else s[:67] + '...'

    def _havoc(self, ea: Env, eb: Env, xa, xb, wa: Set[str], wb: Set[str], tag: str):
        for cn in wa | wb:
            if cn in wa and cn in wb:
                ea.vals.pop(cn, None)
                eb.vals.pop(cn, None)
            elif cn in wa:
                ea.vals[cn] = C.atom(('n', f"{cn}@only:{self.a.label}"))
            else:
                eb.vals[cn] = C.atom(('n', f"{cn}@only:{self.b.label}"))
        for n in stored_arrays([xa]):
            ea.versions[self.a.cn(n)] = tag
        for n in stored_arrays([xb]):
            eb.versions[self.b.cn(n)] = tag

    # ------------------------------------------------------------------ context facts
    def _branch_facts(self, facts: dict, failed: List[tuple], taken: Optional[tuple], is_taken: bool,
                      hook: Optional[Callable] = None) -> dict:
        """Facts valid inside a branch: from guards that failed before it (cursor end-of-array
        equalities, tie equalities).  Only equalities justified by the verified merge idiom
        (cursor `<=` invariant, strict three-way comparison) are derived."""
        out = dict(facts)
        if not self.cursors and not self.tie_facts:
            return out
        neg_atoms: List[tuple] = []
        for g in failed:
            neg_atoms.extend(self._conjuncts(C.mk_not(g)))
        if taken is not None:
            neg_atoms.extend(self._conjuncts(taken))
        # (1) cursor facts: not (cursor-expr < bound) with invariant cursor-expr <= bound  =>  equality
        for c in neg_atoms:
            if c[0] == 'cmp' and c[1] == 'le':
                # c: p <= 0 where original failed guard was (-p < 0)
                p = c[2]
                for cur in self.cursors:
                    atom_c = ('n', cur)
                    co = self._lin_coeff(p, atom_c)
                    # failed guard  cur + k < N   ==>  -cur - k + N <= 0 ; invariant gives equality
                    if co is not None and co == -1:
                        rest = C.add(p, C.atom(atom_c))      # p = -cur + rest  => cur = rest
                        if atom_c not in C.atoms_of(rest) and atom_c not in out:
                            out[atom_c] = rest
        # (2) tie facts: both X<Y and Y<X failed  => X == Y
        if self.tie_facts:
            les = [c[2] for c in neg_atoms if c[0] == 'cmp' and c[1] == 'le']
            ors = [c for c in neg_atoms if c[0] == 'or']
            # failed guards of the merge idiom have the form (i<N) and (j==M or X<Y): their negation is
            # an `or`; the tie equality is only derived in the final else where both strict tests failed.
            cand = []
            for g in failed:
                for lt in self._strict_tests(g):
                    cand.append(lt)
            for p in cand:
                if C.neg(p) in cand:
                    eqs = self._orient(p)
                    if eqs and taken is None:
                        k, v = eqs
                        if k not in out:
                            out[k] = v
        if hook is not None:
            for k, v in hook(out).items():
                if k not in out:
                    out[k] = v
        return out

    @staticmethod
    def _conjuncts(c: tuple) -> List[tuple]:
        if c[0] == 'and':
            r = []
            for x in c[1]:
                r.extend(Comparer._conjuncts(x))
            return r
        return [c]

    @staticmethod
    def _strict_tests(g: tuple) -> List[C.Term]:
        out = []

        def walk(c):
            if c[0] in ('and', 'or'):
                for x in c[1]:
                    walk(x)
            elif c[0] == 'cmp' and c[1] == 'lt':
                out.append(c[2])
        walk(g)
        return out

    @staticmethod
    def _lin_coeff(p: C.Term, a: tuple):
        co = None
        for m, c in p[1]:
            if a in m:
                if len(m) != 1:
                    return None
                co = c
            else:
                for x in m:
                    if a in C.atoms_of(x):
                        return None
        return co

    @staticmethod
    def _orient(p: C.Term):
        """p == 0 with p = X - Y (two single atoms): rewrite the larger atom to the smaller."""
        its = p[1]
        if len(its) == 2 and all(len(m) == 1 for m, _ in its) and its[0][1] == -its[1][1]:
            a1, a2 = its[0][0][0], its[1][0][0]
            lo, hi = sorted([a1, a2], key=repr)
            return hi, C.atom(lo)
        return None

    # ------------------------------------------------------------------ loops
    def cmp_loop(self, xa, xb, ea, eb, fa, fb, ctx, rest_a, rest_b, asg_a, asg_b):
        site = self.site
        kind = xa[0]
        body_a, body_b = (xa[2], xb[2]) if kind == 'while' else (xa[3], xb[3])
        pre_iter = None
        restore = None
        if kind == 'for':
            # the iterable of a `for` is evaluated once, in the state before the loop
            try:
                pre_iter = (C.canon_expr(xa[2], ea), C.canon_expr(xb[2], eb))
            except CanonError:
                pre_iter = None
            # loop variables that are local to their loop (not read afterwards) are the same variable whatever
            # they are called: side b's is renamed to side a's for the extent of the loop
            if isinstance(xa[1], ast.Name) and isinstance(xb[1], ast.Name):
                na, raw_b = self.a.cn(xa[1].id), xb[1].id
                if self.b.cn(raw_b) != na and raw_b not in rest_b and xa[1].id not in rest_a:
                    others_b = {self.b.cn(n.id) for n in ast.walk(self.b.fi.node) if isinstance(n, ast.Name) and n.id != raw_b}
                    if na not in others_b:
                        restore = (raw_b, self.b.rename.get(raw_b), eb.rename.get(raw_b) if eb.rename is not self.b.rename else None)
                        self.b.rename[raw_b] = na
                        if eb.rename is not self.b.rename:
                            eb.rename[raw_b] = na
        wa = {self.a.cn(n) for n in assigned_names([xa])}
        wb = {self.b.cn(n) for n in assigned_names([xb])}
        union = wa | wb
        test_reads_a = read_names(xa[1]) if kind == 'while' else read_names(xa[2])
        test_reads_b = read_names(xb[1]) if kind == 'while' else read_names(xb[2])
        loop_reads_a = read_names(body_a) | test_reads_a
        loop_reads_b = read_names(body_b) | test_reads_b
        live_in = {self.a.cn(n) for n in (loop_reads_a | rest_a)} | {self.b.cn(n) for n in (loop_reads_b | rest_b)}
        # loop-entry state agreement for loop-carried variables
        self.compare_vars(ea, eb, union, asg_a, asg_b, fa, fb, ctx, live_in, 'at loop entry')
        self._havoc(ea, eb, xa, xb, wa, wb, f"loop{site}")
        if kind == 'while':
            ca, cb = C.canon_cond(xa[1], ea), C.canon_cond(xb[1], eb)
            if not self.eq_cond(ca, cb, fa, fb):
                self.mism('condition', 'loop condition differs', xa[1], xb[1],
                          C.cond_set_form(self.norm(ca, fa)), C.cond_set_form(self.norm(cb, fb)), ctx)
            label = f"while {self._short(xa[1])}"
        else:
            ia_, ib_ = pre_iter if pre_iter is not None else (C.canon_expr(xa[2], ea), C.canon_expr(xb[2], eb))
            if not self.eq(ia_, ib_, fa, fb):
                self.mism('condition', 'loop range differs', xa[2], xb[2], self.norm(ia_, fa), self.norm(ib_, fb), ctx)
            ta = {self.a.cn(n) for n in assigned_names([('for', xa[1], None, [], None)])}
            tb = {self.b.cn(n) for n in assigned_names([('for', xb[1], None, [], None)])}
            self.points += 1
            if ta != tb:
                self.mism('condition', 'loop variable differs', xa[1], xb[1], ', '.join(sorted(ta)), ', '.join(sorted(tb)), ctx)
            label = f"for {self._short(xa[1])} in {self._short(xa[2])}"
        e1, e2 = ea.copy(), eb.copy()
        sa, sb = self.seq(body_a, body_b, e1, e2, fa, fb, ctx + [label],
                          loop_reads_a | rest_a, loop_reads_b | rest_b)
        self.compare_vars(e1, e2, union, sa, sb, fa, fb, ctx + [label], live_in, 'at end of loop body')
        if kind == 'while':
            try:
                self.exit_facts.append(C.mk_not(C.canon_cond(xa[1], ea)))
            except CanonError:
                pass
        for n in wa:
            asg_a[n] = xa[-1]
        for n in wb:
            asg_b[n] = xb[-1]
        if restore is not None:
            raw_b, old_side, old_env = restore
            if old_side is None:
                self.b.rename.pop(raw_b, None)
            else:
                self.b.rename[raw_b] = old_side
            if eb.rename is not self.b.rename:
                if old_env is None:
                    eb.rename.pop(raw_b, None)
                else:
                    eb.rename[raw_b] = old_env


# ----------------------------------------------------------------------------
def guards_exclusive(guards: List[tuple], assume: Optional[List[tuple]] = None) -> bool:
    """Truth-table check that the guards of an if-chain are pairwise mutually exclusive, over
    the order theory of their comparison atoms (each distinct polynomial is <0, ==0 or >0)."""
    polys: List[C.Term] = []

    def collect(c):
        if c[0] in ('and', 'or'):
            for x in c[1]:
                collect(x)
        elif c[0] == 'not':
            collect(c[1])
        elif c[0] == 'cmp':
            p = c[2]
            k, p1 = C.content_sign(p)
            if p1 not in polys:
                polys.append(p1)
        else:
            raise ValueError('opaque')

    assume = list(assume or [])
    try:
        for g in guards:
            collect(g)
    except ValueError:
        return False
    usable = []
    for a_ in assume:
        try:
            collect(a_)
            usable.append(a_)
        except ValueError:
            pass
    if len(polys) > 7:
        return False

    def ev(c, asg):
        if c[0] == 'and':
            return all(ev(x, asg) for x in c[1])
        if c[0] == 'or':
            return any(ev(x, asg) for x in c[1])
        if c[0] == 'not':
            return not ev(c[1], asg)
        p = c[2]
        k, p1 = C.content_sign(p)
        s = asg[polys.index(p1)] * (1 if k > 0 else -1)
        return {'lt': s < 0, 'le': s <= 0, 'eq': s == 0, 'ne': s != 0}[c[1]]

    for asg in itertools.product((-1, 0, 1), repeat=len(polys)):
        # consistency between polys that differ by a constant (e.g. i - N + 1 and i - N + 2): conservative,
        # inconsistent rows only make the check stricter (never unsound)
        if any(not ev(a_, asg) for a_ in usable):
            continue      # row contradicts a fact known at this point (e.g. the exit condition of the loop just left)
        truths = [ev(g, asg) for g in guards]
        if sum(truths) > 1:
            return False
    return True


def run_with_local_pairing(build, fi_a: FuncInfo, fi_b: FuncInfo, rename_a: Dict[str, str], rename_b: Dict[str, str]):
    """Run the comparison `build(rename_b)`; if it reports mismatches and there are locals that exist on one side only
    (a one-sided renaming), retry with the pairings of those locals (few) and accept a pairing only if the whole
    comparison then succeeds.  Returns the Comparer to report from."""
    first = build(dict(rename_b))
    first.run()
    if not first.mismatches:
        return first

    def locals_of(fi):
        params = {x.arg for x in fi.node.args.args}
        return [n for n in dict.fromkeys(x.id for x in ast.walk(fi.node) if isinstance(x, ast.Name) and isinstance(x.ctx, ast.Store))
                if n not in params]
    la = [rename_a.get(n, n) for n in locals_of(fi_a)]
    lb_raw = locals_of(fi_b)
    only_a = [n for n in la if n not in [rename_b.get(x, x) for x in lb_raw]]
    only_b = [n for n in lb_raw if rename_b.get(n, n) not in la]
    if not only_a or not only_b or len(only_b) > 2 or len(only_a) > 7:
        return first
    for combo in itertools.permutations(only_a, len(only_b)):
        ren = dict(rename_b)
        for raw, tgt in zip(only_b, combo):
            ren[raw] = tgt
        c2 = build(ren)
        try:
            c2.run()
        except Exception:
            continue
        if not c2.mismatches:
            c2.info.append(f"{c2.title}: locals paired {dict(zip(only_b, combo))} (one-sided renaming)")
            return c2
    return first
