"""Dispatch-site extraction: `try: from .cython.X import a as impl / except ImportError: ...`.

Each site is classified as
  'paired'      both branches import a backend routine under the same alias
  'single'      the compiled routine is imported (and called) inside the try; the handler
                re-routes through another function (no import of a backend routine)
  'nofallback'  the handler raises
"""
from __future__ import annotations

import ast
from dataclasses import dataclass
from typing import List, Optional

from .frontend import Repo, FuncInfo


@dataclass
class DispatchSite:
    fi: FuncInfo                # enclosing wrapper function
    node: ast.Try
    kind: str                   # paired | single | nofallback
    alias: str
    compiled_module: str
    compiled_symbol: str
    fallback_module: Optional[str] = None
    fallback_symbol: Optional[str] = None
    fallback_calls: Optional[List[ast.Call]] = None   # calls in the handler body (single)

    @property
    def where(self) -> str:
        return f"{self.fi.path}:{self.node.lineno}"


def _resolve_from(fi: FuncInfo, node: ast.ImportFrom) -> str:
    mod = fi.module
    pkg = mod.rsplit('.', 1)[0] if '.' in mod else mod
    if fi.path.endswith('__init__.py'):
        pkg = mod
    base = pkg
    for _ in range(max(node.level - 1, 0)):
        base = base.rsplit('.', 1)[0]
    if node.level == 0:
        return node.module or ''
    return base + ('.' + node.module if node.module else '')


def _continuation(fn: ast.FunctionDef, stmt: ast.stmt) -> List[ast.stmt]:
    """the statements executed after `stmt` falls through: the rest of its block, then of the enclosing blocks"""
    out: List[ast.stmt] = []

    def search(block) -> bool:
        for k, s in enumerate(block):
            if s is stmt:
                out.extend(block[k + 1:])
                return True
            for fld in ('body', 'orelse', 'finalbody'):
                b = getattr(s, fld, None)
                if isinstance(b, list) and b and isinstance(b[0], ast.stmt) and search(b):
                    if not isinstance(s, (ast.For, ast.While)):
                        out.extend(block[k + 1:])
                    return True
            for h in getattr(s, 'handlers', []) or []:
                if search(h.body):
                    out.extend(block[k + 1:])
                    return True
        return False
    search(fn.body)
    return out


def find_dispatch_sites(repo: Repo) -> List[DispatchSite]:
    sites: List[DispatchSite] = []
    for fi in repo.all_functions(pyx=False):
        for node in ast.walk(fi.node):
            if not isinstance(node, ast.Try):
                continue
            # only direct children of this function (avoid double counting nested defs)
            imps = [s for s in node.body if isinstance(s, ast.ImportFrom)]
            if not imps:
                continue
            imp = imps[0]
            mod = _resolve_from(fi, imp)
            if '.cython.' not in mod and not mod.endswith('.cython'):
                continue
            if len(imp.names) != 1:
                continue
            al = imp.names[0]
            alias = al.asname or al.name
            handler = None
            for h in node.handlers:
                if h.type is not None and 'ImportError' in ast.unparse(h.type):
                    handler = h
            if handler is None:
                continue
            himps = [s for s in ast.walk(handler) if isinstance(s, ast.ImportFrom)]
            raises = [s for s in handler.body if isinstance(s, ast.Raise)]
            if himps:
                h0 = himps[0]
                hal = h0.names[0]
                sites.append(DispatchSite(fi, node, 'paired', alias, mod, al.name,
                                          _resolve_from(fi, h0), hal.name))
                if (hal.asname or hal.name) != alias:
                    sites[-1].kind = 'paired-alias-mismatch'
            elif raises:
                sites.append(DispatchSite(fi, node, 'nofallback', alias, mod, al.name))
            else:
                calls = [c for s in handler.body for c in ast.walk(s) if isinstance(c, ast.Call)]
                if not calls:
                    # the handler only swallows the ImportError: the fallback route is what follows the try statement
                    calls = [c for s in _continuation(fi.node, node) for c in ast.walk(s) if isinstance(c, ast.Call)]
                sites.append(DispatchSite(fi, node, 'single', alias, mod, al.name, fallback_calls=calls))
    # de-duplicate (ast.walk of an outer function also visits nested defs' try nodes)
    seen = set()
    out = []
    for s in sites:
        k = (s.fi.path, s.node.lineno)
        if k in seen:
            continue
        seen.add(k)
        out.append(s)
    out.sort(key=lambda s: (s.fi.path, s.node.lineno))
    return out
