"""Train-swap symmetry (sigma) rules: R07.1 symmetric kernels, R04.1 antisymmetric kernels, L5 (get_tau),
helper symmetries (dist_at_t).  A kernel P is compared with sigma(P) - the same source under the renaming that
exchanges the roles of train 1 and train 2 - by engine C.  If sigma(P) == P then P(b, a) = sigma(P)(a, b) = P(a, b)
for all inputs, bit for bit (same program up to renaming); sigma(P) == neg(P) gives P(b, a) = -P(a, b)."""
from __future__ import annotations

import ast
import re
from typing import Dict, List, Optional, Set, Tuple

from . import canon as C
from .compare import Comparer, Side, Inconclusive
from .frontend import Repo, FuncInfo
from .idioms import MergeRoles
from .ir import IRBuilder
from .report import Ob, ok, violation, inconclusive, info
from .rules_siblings import SiblingEngine, _fn


def sigma_pairs(fi: FuncInfo, roles: Optional[MergeRoles]) -> Dict[str, str]:
    """The renaming sigma: parameters 0<->1, cursors, bounds, and every local pair X1/X2 (or X1_/X2_ infix) that
    exists in both forms."""
    names: Set[str] = set()
    for n in ast.walk(fi.node):
        if isinstance(n, ast.Name):
            names.add(n.id)
        elif isinstance(n, ast.arg):
            names.add(n.arg)
    ren: Dict[str, str] = {}
    ps = [a.arg for a in fi.node.args.args]
    if len(ps) >= 2:
        ren[ps[0]] = ps[1]
        ren[ps[1]] = ps[0]
    if roles is not None:
        for a, b in ((roles.c1, roles.c2), (roles.n1, roles.n2)):
            if a and b and a != b:
                ren[a] = b
                ren[b] = a
        if roles.arr1 and roles.arr2:
            ren[roles.arr1] = roles.arr2
            ren[roles.arr2] = roles.arr1
    for nm in sorted(names):
        if nm in ren:
            continue
        m = re.fullmatch(r"(.*?)1(\D*)", nm)
        if m:
            other = f"{m.group(1)}2{m.group(2)}"
            if other in names and other not in ren:
                ren[nm] = other
                ren[other] = nm
    return ren


def _split_at_loop(items: list):
    from .rules_exits import main_path
    items = main_path(items)[0]
    for k, it in enumerate(items):
        if it[0] == 'while':
            return items[:k + 1], items[k + 1:]
    return items, []


def check_symmetric_helper(eng: SiblingEngine, fi: FuncInfo, perm: Tuple[int, ...], rule: str) -> Tuple[bool, List[Ob]]:
    """helper(args) == helper(args permuted): compare the body under the parameter renaming of `perm`."""
    ps = [a.arg for a in fi.node.args.args]
    ren = {ps[k]: ps[perm[k]] for k in range(len(ps)) if perm[k] != k}
    a = Side(fi, label='P')
    b = Side(fi, rename=ren, label='sigma(P)')
    cmp = Comparer(a, b, title=f"{fi.name} under argument swap")
    cmp.skip_signature = True
    t = (f"{fi.name} ({fi.path}): invariant under exchanging its ({', '.join(ps[k] for k in range(len(ps)) if perm[k] != k)}) "
         f"arguments pairwise")
    try:
        cmp.run()
    except (Inconclusive, C.CanonError) as e:
        return False, [inconclusive(rule, t, fi.loc(), str(e), construct=f"{_fn(fi)}::sym")]
    if cmp.mismatches:
        m = cmp.mismatches[0]
        return False, [violation(rule, t, fi.loc(), key=f"{_fn(fi)}::helper-asymmetric::{m.what}",
                                 detail=m.text())]
    return True, [ok(rule, t, fi.loc(), construct=f"{_fn(fi)}::sym", points=cmp.points)]


def check_l5_get_tau(fi: FuncInfo, rule: str) -> Tuple[bool, List[Ob]]:
    """L5 premises: body is `<neighbour extraction>; if i<0 or j<0 or s1[i] <= s2[j]: T else: E` with sigma(T) == E,
    sigma(E) == T and a sigma-symmetric neighbour extraction."""
    obs: List[Ob] = []
    ps = [a.arg for a in fi.node.args.args]
    if len(ps) < 4:
        return False, [inconclusive(rule, 'get_tau has (train1, train2, i, j, ...) parameters', fi.loc(), construct=_fn(fi))]
    ren = sigma_pairs(fi, None)
    ren[ps[2]], ren[ps[3]] = ps[3], ps[2]
    bld = IRBuilder()
    items = bld.build(fi.node.body)
    # `if c: A else: B` followed by a common tail that returns is the same two-way branch with the tail in both arms
    for k_, it in enumerate(items):
        if it[0] == 'if' and len(it[1]) == 1 and it[2] and not any(x[0] == 'return' for x in it[1][0][1] + it[2]):
            tail = items[k_ + 1:]
            if tail and tail[-1][0] == 'return' and all(x[0] in ('simple', 'return') for x in tail):
                cond_, body_, node_ = it[1][0]
                items = items[:k_] + [('if', [(cond_, list(body_) + tail, node_)], list(it[2]) + tail, it[-1])]
                break
    ifs = [it for it in items if it[0] == 'if' and len(it[1]) == 1 and it[2] and
           any(x[0] == 'return' for x in it[1][0][1]) and any(x[0] == 'return' for x in it[2])]
    fn = _fn(fi)
    if len(ifs) != 1:
        return False, [inconclusive(rule, f"get_tau ({fi.path}): ends in one two-way branch that returns on both sides",
                                    fi.loc(), construct=fn)]
    br = ifs[0]
    k = items.index(br)
    pre = items[:k]
    env = C.Env()
    cond = C.canon_cond(br[1][0][0], env)
    s1i = C.atom(('sub', ('n', ps[0]), C.atom(('n', ps[2]))))
    s2j = C.atom(('sub', ('n', ps[1]), C.atom(('n', ps[3]))))
    want = C.mk_bool('or', [C.mk_cmp('lt', C.atom(('n', ps[2])), C.ZERO), C.mk_cmp('lt', C.atom(('n', ps[3])), C.ZERO),
                            C.mk_cmp('le', s1i, s2j)])
    t = f"get_tau ({fi.path}): branch condition is `i<0 or j<0 or s1[i] <= s2[j]` (bounds tests first)"
    good = True
    if cond == want:
        obs.append(ok(rule, t, fi.loc(br[-1]), construct=f"{fn}::L5::cond"))
    else:
        good = False
        obs.append(violation(rule, t, fi.loc(br[-1]), key=f"{fn}::L5::condition", detail=f"found {C.show(cond)}"))
    # sigma(T) == E and sigma(E) == T ; prologue sigma-symmetric
    for tag, xa, xb in (('then/else', br[1][0][1], br[2]), ('else/then', br[2], br[1][0][1]), ('neighbour extraction', pre, pre)):
        a = Side(fi, label='P')
        b = Side(fi, rename=ren, label='sigma(P)')
        a.body, b.body = list(xa), list(xb)
        cmp = Comparer(a, b, title=f"get_tau {tag}", allow_reorder=True)
        cmp.skip_signature = True
        t = f"get_tau ({fi.path}): {tag}: one side is the train-swapped image of the other"
        try:
            cmp.run()
            if cmp.mismatches:
                good = False
                obs.append(violation(rule, t, fi.loc(br[-1]), key=f"{fn}::L5::{tag}::{cmp.mismatches[0].what}",
                                     detail=cmp.mismatches[0].text()))
            else:
                obs.append(ok(rule, t, fi.loc(br[-1]), construct=f"{fn}::L5::{tag}", points=cmp.points))
        except (Inconclusive, C.CanonError) as e:
            good = False
            obs.append(inconclusive(rule, t, fi.loc(br[-1]), str(e), construct=f"{fn}::L5::{tag}"))
    return good, obs


class SymmetryEngine:
    def __init__(self, eng: SiblingEngine):
        self.eng = eng
        self.repo = eng.repo
        self.helper_obs: List[Ob] = []
        self.ready = False

    def prepare(self, rule: str):
        """establish helper symmetries once and register them with the canonicaliser"""
        if self.ready:
            return
        self.ready = True
        C.SYMMETRIC_CALLS.clear()
        # dist_at_t(isi1, isi2, s1, s2, MRTS, RI): invariant under (0<->1, 2<->3) in every copy
        all_ok = True
        found = False
        for f in self.repo.all_functions():
            if f.name == 'dist_at_t':
                found = True
                g, o = check_symmetric_helper(self.eng, f, (1, 0, 3, 2, 4, 5), 'R07.1-helper')
                self.helper_obs += o
                all_ok &= g
        if found and all_ok:
            C.SYMMETRIC_CALLS['dist_at_t'] = [(1, 0, 3, 2, 4, 5)]
        # get_tau: contextual symmetry (lemma L5)
        all_ok = True
        found = False
        for f in self.repo.all_functions():
            if f.name == 'get_tau':
                found = True
                g, o = check_l5_get_tau(f, 'R07.1-L5')
                self.helper_obs += o
                all_ok &= g
        if found and all_ok:
            C.SYMMETRIC_CALLS['get_tau'] = [(1, 0, 3, 2, 4, 5)]
        # a helper whose symmetry lemma is open only because its shape was not recognised (no clause of the lemma is violated):
        # what depends on the lemma is then open too, not refuted
        self.undecided_helpers: Set[str] = set()
        for nm in ('dist_at_t', 'get_tau'):
            mine = [o for o in self.helper_obs if o.title.split(' ')[0].split('(')[0].split(':')[0] == nm or o.title.startswith(nm)]
            if nm not in C.SYMMETRIC_CALLS and mine and not any(o.status == 'violation' for o in mine) \
                    and any(o.status == 'inconclusive' for o in mine):
                self.undecided_helpers.add(nm)

    def kernel_obligations(self, fi: FuncInfo, mode: str, rule: str, neg_names: Optional[Set[str]] = None,
                           return_kind: str = 'same') -> List[Ob]:
        """mode: 'sym' (sigma(P) == P) | 'anti' (sigma(P) == neg(P) for the names in neg_names).
        return_kind: 'same' | 'swap' (returned pair exchanged) | 'neg' | 'neg0' (first component negated)."""
        self.prepare(rule)
        roles, _ = self.eng.roles_of(fi)
        fn = _fn(fi)
        what = {'sym': 'exchanging the two trains leaves the result unchanged (sigma(P) == P)',
                'anti': 'exchanging the two trains negates the result (sigma(P) == -P)'}[mode]
        t = f"{fi.name} ({fi.path}): {what}"
        if roles is None or not roles.ok:
            return [inconclusive(rule, t, fi.loc(), 'merge idiom premises not established', construct=f"{fn}::sigma")]
        ren = sigma_pairs(fi, roles)
        bld = IRBuilder()
        items = bld.build(fi.node.body)
        head, tail = _split_at_loop(items)
        obs: List[Ob] = []
        parts = [('scan', head, set(neg_names or ()) if mode == 'anti' else set())]
        if tail:
            parts.append(('framing', tail, set()))
        total_pts = 0
        for tag, its, negs in parts:
            a = Side(fi, label='P')
            b = Side(fi, rename=ren, label='sigma(P)', negate={ren.get(n, n) for n in negs} | set(negs))
            a.body, b.body = list(its), list(its)
            ad = self.eng._adapters([], rule)
            a.call_adapters = ad
            b.call_adapters = ad
            cmp = Comparer(a, b, cursors=[roles.c1, roles.c2], allow_reorder=True, title=f"{fi.name} vs sigma [{tag}]")
            cmp.skip_signature = True
            if tag == parts[-1][0] and return_kind == 'swap':
                cmp.return_map = _swap_pair
            try:
                cmp.run()
            except (Inconclusive, C.CanonError) as e:
                obs.append(inconclusive(rule, t + f" [{tag}]", fi.loc(), str(e), construct=f"{fn}::sigma::{tag}"))
                continue
            total_pts += cmp.points
            seen = set()
            for m in cmp.mismatches:
                if m.key() in seen:
                    continue
                seen.add(m.key())
                dep = [h for h in getattr(self, 'undecided_helpers', ()) if f"{h}(" in str(m.form_a) + str(m.form_b)]
                if dep:
                    obs.append(inconclusive(rule, t + f" [{tag}]: {m.what}", f"{m.loc_a} / {m.loc_b}",
                                            f"depends on the symmetry lemma of `{dep[0]}`, which is undecided on this tree (its shape is "
                                            f"not recognised)", construct=f"{fn}::sigma::{tag}::{m.ctx}"))
                    continue
                obs.append(violation(rule, t + f" [{tag}]: {m.what}", f"{m.loc_a} / {m.loc_b}",
                                     key=f"{fn}::sigma::{tag}::{m.kind}::{m.what}::{m.form_a}::{m.form_b}",
                                     detail=f"P:        {m.form_a}\nsigma(P): {m.form_b}\nin: {m.ctx}",
                                     construct=f"{fn}::sigma::{tag}::{m.ctx}"))
            if not cmp.mismatches:
                obs.append(ok(rule, t + f" [{tag}]", fi.loc(), construct=f"{fn}::sigma::{tag}", points=cmp.points,
                              detail=f"{cmp.points} aligned points; sigma = {{{', '.join(f'{k}<->{v}' for k, v in sorted(ren.items()) if k < v)}}}"))
        return obs


def _swap_pair(v):
    sa = C.single_atom(v) if C.is_poly(v) else v
    if sa is not None and sa[0] == 'tuple' and len(sa[1]) == 2:
        return C.atom(('tuple', (sa[1][1], sa[1][0])))
    return v


def _neg_first(v):
    sa = C.single_atom(v) if C.is_poly(v) else v
    if sa is not None and sa[0] == 'tuple' and len(sa[1]) >= 1:
        return C.atom(('tuple', (C.neg(C.to_poly(sa[1][0])),) + tuple(sa[1][1:])))
    return v


def infer_mode(fi: FuncInfo, scope: Optional[ast.AST] = None) -> Tuple[str, Set[str], str]:
    """(mode, negated names, return kind) from the signs of the literal constants a kernel stores/accumulates
    inside its merge loop."""
    signs: Dict[str, Set[int]] = {}
    scope = scope if scope is not None else fi.node

    def lit(v):
        if isinstance(v, ast.UnaryOp) and isinstance(v.op, (ast.USub, ast.UAdd)) and isinstance(v.operand, ast.Constant):
            return -1 if isinstance(v.op, ast.USub) else 1
        if isinstance(v, ast.Constant) and isinstance(v.value, (int, float)) and v.value != 0:
            return 1 if v.value > 0 else -1
        return None
    for n in ast.walk(scope):
        if isinstance(n, ast.Assign) and isinstance(n.targets[0], ast.Subscript) and isinstance(n.targets[0].value, ast.Name):
            s = lit(n.value)
            if s:
                signs.setdefault(n.targets[0].value.id, set()).add(s)
        if isinstance(n, ast.AugAssign) and isinstance(n.target, ast.Name) and isinstance(n.op, (ast.Add, ast.Sub)):
            s = lit(n.value)
            if s:
                signs.setdefault(n.target.id, set()).add(s if isinstance(n.op, ast.Add) else -s)
    both = {k for k, v in signs.items() if v == {1, -1}}
    rets = []
    for n in ast.walk(fi.node):
        if isinstance(n, ast.Return) and n.value is not None:
            rets = [x.id for x in (n.value.elts if isinstance(n.value, ast.Tuple) else [n.value]) if isinstance(x, ast.Name)]
    if not both:
        return 'sym', set(), 'same'
    if len(both) == 2 and rets == sorted(both):
        return 'sym', set(), 'swap'
    if len(both) == 1:
        nm = next(iter(both))
        if rets and rets[0] == nm and len(rets) > 1:
            return 'anti', both, 'neg0'
        if rets == [nm]:
            return 'anti', both, 'neg'
        return 'anti', both, 'same'
    return 'sym', set(), 'same'


def family_kind(fam) -> str:
    """measure of a kernel family, from the public wrapper that dispatches to it"""
    w = fam.wrapper
    if w.cls:
        return 'add'
    nm = w.name.lower()
    if 'order' in nm:
        return 'order'
    if 'directionality' in nm:
        return 'dir'
    if 'filter' in nm:
        return 'single'
    if 'sync' in nm:
        return 'sync'
    if 'isi' in nm:
        return 'isi'
    if 'spike' in nm:
        return 'spike'
    return 'unknown'


def mode_by_kind(fam, k: FuncInfo) -> Tuple[str, Set[str], str]:
    from .rules_projection import _returned_names
    kind = family_kind(fam)
    ret = _returned_names(k)
    if kind == 'order':
        if k is fam.single:
            return 'anti', set(ret[:1]), 'same'
        return 'anti', set(ret[1:2]), 'same'
    if kind == 'dir':
        if k is fam.single:
            return 'anti', set(ret[:1]), 'same'
        return 'sym', set(), 'swap'
    return 'sym', set(), 'same'


def r07_1_symmetry(ctx, eng: SiblingEngine, rule: str = 'R07.1', want_modes=('sym',), only: Optional[Set[str]] = None) -> List[Ob]:
    """sigma obligations for every measure kernel (both backends + single-pass) whose inferred mode is in want_modes;
    helper obligations (dist_at_t symmetry, L5) are included once."""
    se: SymmetryEngine = ctx.get('symmetry', lambda c: SymmetryEngine(eng))
    se.prepare(rule)
    obs: List[Ob] = list(se.helper_obs)
    for fam in eng.families:
        for k in (fam.py, fam.pyx, fam.single):
            if k is None or not eng.has_merge_loop(k):
                continue
            roles, _ = eng.roles_of(k)
            if roles is None or roles.kind != 'cursor':
                continue
            if only is not None and k.name not in only:
                continue
            mode, negs, rk = mode_by_kind(fam, k)
            tag = 'anti' if mode == 'anti' else ('swap' if rk == 'swap' else 'sym')
            if tag not in want_modes:
                continue
            obs.extend(se.kernel_obligations(k, mode, rule, negs, rk))
    return obs



def add_kernel_symmetry(ctx, eng: SiblingEngine, rule: str = 'R09.8', classes: Optional[Set[str]] = None) -> List[Ob]:
    """Operand-swap symmetry of the add kernels: sigma(P) == P with (x1,y1..) <-> (x2,y2..) - a sufficient static argument for
    f.add(g) and g.add(f) computing the same arrays (commutativity), and a mirror check of the two tail-copy branches."""
    from .rules_siblings import add_kernel_lens, _lens_for
    obs: List[Ob] = []
    for fam in eng.families:
        if not fam.wrapper.cls or (classes is not None and fam.wrapper.cls not in classes):
            continue
        # precondition asserted by the wrapper: same first and last breakpoint
        # (by canonical form: `x[-1]` and `x[len(x)-1]` are the same element, either operand may come first)
        want_first, want_last = set(), set()
        other = fam.wrapper.node.args.args[1].arg if len(fam.wrapper.node.args.args) > 1 else 'f'
        sx, fx = C.atom(('attr', ('n', 'self'), 'x')), C.atom(('attr', ('n', other), 'x'))

        def elem(arr, last):
            a_ = C.single_atom(arr)
            idx = C.sub(C.atom(('call', 'len', (arr,))), C.ONE) if last else C.ZERO
            return C.atom(('sub', a_, idx))
        want_first = {C.mk_cmp('eq', elem(sx, False), elem(fx, False))}
        want_last = {C.mk_cmp('eq', elem(sx, True), elem(fx, True))}
        got = set()
        from .rules_misc import _top_env_of
        env_w = _top_env_of(fam.wrapper)        # once-assigned locals (`x = self.x`) read through to their definitions
        for n in ast.walk(fam.wrapper.node):
            if isinstance(n, ast.Assert):
                try:
                    c_ = C.canon_cond(n.test, env_w)
                except C.CanonError:
                    continue
                got |= set(c_[1]) if c_[0] == 'and' else {c_}
        pre_ok = bool(got & want_first) and bool(got & want_last)
        t0 = f"{fam.wrapper.name}: asserts that both operands start and end at the same breakpoint (premise of the operand symmetry)"
        obs.append(ok(rule, t0, fam.wrapper.loc(), construct=f"{_fn(fam.wrapper)}::same-interval") if pre_ok else
                   violation(rule, t0, fam.wrapper.loc(), key=f"{_fn(fam.wrapper)}::same-interval-assert"))
        for k in (fam.py, fam.pyx):
            roles, _ = eng.roles_of(k)
            fn = _fn(k)
            t = f"{k.name} ({k.path}): exchanging the two operands leaves the result unchanged (sigma(P) == P): f+g == g+f, and the two tail-copy branches mirror each other"
            if roles is None or not roles.ok:
                obs.append(inconclusive(rule, t, k.loc(), 'add-merge idiom premises not established', construct=f"{fn}::sigma"))
                continue
            ps = [a.arg for a in k.node.args.args]
            half = len(ps) // 2
            ren: Dict[str, str] = {}
            for a_, b_ in zip(ps[:half], ps[half:]):
                ren[a_] = b_
                ren[b_] = a_
            names = {n.id for n in ast.walk(k.node) if isinstance(n, ast.Name)}
            for nm in sorted(names):
                if nm in ren:
                    continue
                m = re.fullmatch(r"(\D+)1", nm)
                if m and f"{m.group(1)}2" in names:
                    ren[nm] = f"{m.group(1)}2"
                    ren[f"{m.group(1)}2"] = nm
            rel = add_kernel_lens(fam)
            a = Side(k, label='P')
            b = Side(k, rename=ren, label='sigma(P)')
            if rel:
                a.lens = _lens_for(k, rel, {})
                b.lens = _lens_for(k, rel, ren)
            cmp = Comparer(a, b, cursors=[roles.c1, roles.c2], allow_reorder=True, title=f"{k.name} vs operand swap")
            cmp.skip_signature = True
            x1, x2 = ps[0], ps[half]
            ln1 = C.atom(('call', 'len', (C.atom(('n', x1)),)))
            ln2 = C.atom(('call', 'len', (C.atom(('n', x2)),)))
            if pre_ok:
                cmp.initial_facts = {('sub', ('n', x2), C.sub(ln2, C.ONE)): C.atom(('sub', ('n', x1), C.sub(ln1, C.ONE))),
                                     ('sub', ('n', x2), C.ZERO): C.atom(('sub', ('n', x1), C.ZERO))}
            try:
                cmp.run()
            except (Inconclusive, C.CanonError) as e:
                obs.append(inconclusive(rule, t, k.loc(), str(e), construct=f"{fn}::sigma"))
                continue
            seen = set()
            for m_ in cmp.mismatches:
                if m_.key() in seen:
                    continue
                seen.add(m_.key())
                obs.append(violation(rule, t + f": {m_.what}", f"{m_.loc_a} / {m_.loc_b}",
                                     key=f"{fn}::operand-sigma::{m_.kind}::{m_.what}::{m_.form_a}::{m_.form_b}",
                                     detail=f"P:        {m_.form_a}\nsigma(P): {m_.form_b}\nin: {m_.ctx}", construct=f"{fn}::sigma::{m_.ctx}"))
            if not cmp.mismatches:
                obs.append(ok(rule, t, k.loc(), construct=f"{fn}::sigma", points=cmp.points, detail=f"{cmp.points} aligned points"))
    return obs
