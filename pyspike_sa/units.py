"""Engine E: affine units typing.

Types (w, k): w = affine weight (sum of coefficients of time points), k = duration degree.
  Time = (1, 1)   Duration = (0, 1)   Scalar = (0, 0)   rate = (0, -1)
Rules: (w1,k) +/- (w2,k) -> (w1 +/- w2, k);  c * (w,k) -> (c*w, k) for a numeric literal c;
(0,k1) * (0,k2) -> (0, k1+k2);  (0,k1) / (0,k2) -> (0, k1-k2);  comparison / max / min / == need equal types;
abs / sqrt need w = 0 (sqrt halves k);  the literal 0 is polymorphic in (0, k), every other bare literal is a
Scalar;  values stored, returned or passed on must have w in {0, 1}.
Theorem (L6): a well-typed routine is invariant under t -> lambda*t + c on every Time input (with Durations scaled
by lambda): Scalars are unchanged, Times transform by the same map, all branch decisions are unchanged.
"""
from __future__ import annotations

import ast
from dataclasses import dataclass, field
from fractions import Fraction
from typing import Dict, List, Optional, Tuple

from .canon import dotted


@dataclass(frozen=True)
class Ty:
    w: Fraction
    k: Fraction

    def __str__(self):
        names = {(1, 1): 'Time', (0, 1): 'Duration', (0, 0): 'Scalar', (0, -1): 'Rate', (0, 2): 'Duration^2'}
        return names.get((self.w, self.k), f"(w={self.w}, k={self.k})")


TIME = Ty(Fraction(1), Fraction(1))
DUR = Ty(Fraction(0), Fraction(1))
SCAL = Ty(Fraction(0), Fraction(0))
RATE = Ty(Fraction(0), Fraction(-1))


@dataclass(frozen=True)
class Lit:
    """numeric literal (polymorphic when 0)"""
    v: Fraction


ANY = 'any'      # untyped (objects, None, strings, unknown calls)


# role table: parameter / attribute name -> type  (arrays and scalars alike)
ROLE_TYPES: Dict[str, Ty] = {}
for _n in ('s1', 's2', 't1', 't2', 'spikes1', 'spikes2', 'spike_train', 'spike_times', 't_start', 't_end',
           'spike_time', 'x1', 'x2', 'x', 't', 'x0', 'tStart', 'tEnd'):
    ROLE_TYPES[_n] = TIME
for _n in ('MRTS', 'max_tau', 'time_bin', 'bin_size'):
    ROLE_TYPES[_n] = DUR
for _n in ('RI', 'y1', 'y2', 'y11', 'y12', 'y21', 'y22', 'mp1', 'mp2', 'y', 'mp', 'fac', 'threshold', 'i', 'j', 'N',
           'start_index', 'y0'):
    ROLE_TYPES[_n] = SCAL
ROLE_TYPES['rate'] = RATE
ATTR_TYPES: Dict[str, Ty] = {'x': TIME, 'y': SCAL, 'y1': SCAL, 'y2': SCAL, 'mp': SCAL, 'spikes': TIME,
                             't_start': TIME, 't_end': TIME}


class UnitError(Exception):
    def __init__(self, msg, node):
        super().__init__(msg)
        self.node = node


@dataclass
class FnSig:
    params: List[object]
    ret: object


class UnitChecker:
    """Type-checks one function; helper calls are resolved through `sigs` (name -> FnSig)."""

    def __init__(self, fn: ast.FunctionDef, sigs: Dict[str, FnSig], param_types: Optional[Dict[str, object]] = None,
                 self_attrs: Optional[Dict[str, Ty]] = None, interp_roles: Optional[Dict[str, Ty]] = None):
        self.fn = fn
        self.sigs = sigs
        self.env: Dict[str, object] = {}
        self.errors: List[Tuple[str, ast.AST]] = []
        self.returns: List[Tuple[object, ast.AST]] = []
        self.n_judgements = 0
        self.any_nodes: List[ast.AST] = []
        self.self_attrs = self_attrs if self_attrs is not None else ATTR_TYPES
        roles = dict(ROLE_TYPES)
        if interp_roles:
            roles.update(interp_roles)
        for a in fn.args.args:
            if param_types and a.arg in param_types:
                self.env[a.arg] = param_types[a.arg]
            elif a.arg in roles:
                self.env[a.arg] = roles[a.arg]
            elif a.arg == 'self':
                self.env[a.arg] = ANY
            else:
                self.env[a.arg] = ANY

    # ------------------------------------------------------------------
    def err(self, msg, node):
        self.errors.append((msg, node))

    def unify(self, a, b, node, what: str):
        """types must agree; returns the agreed type"""
        self.n_judgements += 1
        if a == ANY or b == ANY:
            return a if b == ANY else b
        if isinstance(a, Lit) and isinstance(b, Lit):
            return SCAL
        if isinstance(a, Lit):
            a, b = b, a
        if isinstance(b, Lit):
            if b.v == 0 and a.w == 0:
                return a
            if a == SCAL:
                return a
            self.err(f"{what}: a bare number ({float(b.v):g}) is combined with a {a}", node)
            return a
        if a != b:
            self.err(f"{what}: {a} vs {b}", node)
        return a

    def ty(self, e: ast.AST):
        if isinstance(e, ast.Constant):
            v = e.value
            if isinstance(v, bool):
                return SCAL
            if isinstance(v, (int, float)):
                return Lit(Fraction(str(v)))
            return ANY
        if isinstance(e, ast.Name):
            if e.id in self.env:
                return self.env[e.id]
            if e.id in ('True', 'False'):
                return SCAL
            return ANY
        if isinstance(e, ast.Attribute):
            d = dotted(e)
            if isinstance(e.value, ast.Name) and e.attr in self.self_attrs:
                return self.self_attrs[e.attr]
            if e.attr in ('shape', 'size', 'ndim'):
                return SCAL
            return ANY
        if isinstance(e, ast.Subscript):
            base = self.ty(e.value)
            sl = e.slice
            for part in ([sl.lower, sl.upper, sl.step] if isinstance(sl, ast.Slice) else
                         (sl.elts if isinstance(sl, ast.Tuple) else [sl])):
                if part is not None and not isinstance(part, ast.Slice):
                    it = self.ty(part)
                    if isinstance(it, Ty) and it != SCAL:
                        self.err(f"subscript index has type {it}", e)
            return base
        if isinstance(e, ast.UnaryOp):
            t = self.ty(e.operand)
            if isinstance(e.op, ast.USub):
                if isinstance(t, Lit):
                    return Lit(-t.v)
                if isinstance(t, Ty):
                    return Ty(-t.w, t.k)
                return t
            if isinstance(e.op, ast.Not):
                return SCAL
            return t
        if isinstance(e, ast.BinOp):
            a, b = self.ty(e.left), self.ty(e.right)
            self.n_judgements += 1
            if (a == ANY or b == ANY) and isinstance(e.op, ast.Add) and (isinstance(e.left, (ast.List, ast.Name)) or isinstance(e.right, ast.List)):
                # accumulation into an (initially empty / untyped) container
                return b if a == ANY else a
            if a == ANY or b == ANY:
                return ANY
            if not isinstance(a, (Ty, Lit)) or not isinstance(b, (Ty, Lit)):
                return ANY          # a container type (tuple of bounds, list): no judgement on arithmetic with it
            if isinstance(e.op, (ast.Add, ast.Sub)):
                sign = 1 if isinstance(e.op, ast.Add) else -1
                if isinstance(a, Lit) and isinstance(b, Lit):
                    return Lit(a.v + sign * b.v)
                if isinstance(a, Lit) or isinstance(b, Lit):
                    lit, t = (a, b) if isinstance(a, Lit) else (b, a)
                    if lit.v == 0 or t == SCAL:
                        return t if (isinstance(b, Lit) or sign == 1) else Ty(-t.w, t.k)
                    self.err(f"a bare number ({float(lit.v):g}) is added to a {t} (not invariant under scaling of the time axis)", e)
                    return t
                if a.k != b.k:
                    self.err(f"sum of different dimensions: {a} {'+' if sign == 1 else '-'} {b}", e)
                    return a
                return Ty(a.w + sign * b.w, a.k)
            if isinstance(e.op, ast.Mult):
                if isinstance(a, Lit) and isinstance(b, Lit):
                    return Lit(a.v * b.v)
                if isinstance(a, Lit):
                    return Ty(b.w * a.v, b.k)
                if isinstance(b, Lit):
                    return Ty(a.w * b.v, a.k)
                if a.w != 0 and b != SCAL or b.w != 0 and a != SCAL:
                    self.err(f"product involving a time point: {a} * {b} (not invariant under shifts)", e)
                    return Ty(Fraction(0), a.k + b.k)
                if a.w != 0:
                    return a if b == SCAL else Ty(Fraction(0), a.k + b.k)
                if b.w != 0:
                    return b
                return Ty(Fraction(0), a.k + b.k)
            if isinstance(e.op, (ast.Div, ast.FloorDiv)):
                if isinstance(a, Lit) and isinstance(b, Lit):
                    return Lit(a.v / b.v) if b.v != 0 else SCAL
                if isinstance(b, Lit):
                    return Ty(a.w / b.v, a.k) if b.v != 0 else a
                if isinstance(a, Lit):
                    if b.w != 0:
                        self.err(f"division by a time point ({b})", e)
                    return Ty(Fraction(0), -b.k)
                if b.w != 0 or (a.w != 0 and b != SCAL):
                    self.err(f"quotient involving a time point: {a} / {b} (not invariant under shifts)", e)
                    return Ty(Fraction(0), a.k - b.k)
                return Ty(a.w, a.k - b.k)
            if isinstance(e.op, ast.Pow):
                if isinstance(b, Lit) and isinstance(a, Ty):
                    if a.w != 0:
                        self.err(f"power of a time point ({a})", e)
                    return Ty(Fraction(0), a.k * b.v)
                return ANY
            if isinstance(e.op, ast.Mod):
                return a
            return ANY
        if isinstance(e, ast.Compare):
            left = self.ty(e.left)
            for op, c in zip(e.ops, e.comparators):
                r = self.ty(c)
                if isinstance(op, (ast.Is, ast.IsNot, ast.In, ast.NotIn)):
                    left = r
                    continue
                self.unify(left, r, e, 'comparison of different types')
                left = r
            return SCAL
        if isinstance(e, ast.BoolOp):
            for v in e.values:
                self.ty(v)
            return SCAL
        if isinstance(e, ast.IfExp):
            self.ty(e.test)
            return self.unify(self.ty(e.body), self.ty(e.orelse), e, 'conditional expression with different branch types')
        if isinstance(e, (ast.List, ast.Tuple)):
            ts = [self.ty(x) for x in e.elts]
            if isinstance(e, ast.Tuple):
                return ('tuple', tuple(ts))
            out = ANY
            for t in ts:
                out = self.unify(out, t, e, 'list elements of different types') if out != ANY else t
            return out
        if isinstance(e, ast.ListComp):
            saved = dict(self.env)
            for g in e.generators:
                it = self.ty(g.iter)
                self._bind(g.target, it, g)
            t = self.ty(e.elt)
            self.env = saved
            return t
        if isinstance(e, ast.Call):
            return self.call(e)
        return ANY

    def call(self, e: ast.Call):
        d = dotted(e.func) or ''
        args = [self.ty(a) for a in e.args if not isinstance(a, ast.Starred)]
        for k in e.keywords:
            self.ty(k.value)
        base = d.split('.')[-1]
        if base in ('max', 'min', 'fmax', 'fmin', 'maximum', 'minimum'):
            if len(e.args) == 1 and isinstance(e.args[0], (ast.List, ast.Tuple)):
                args = [self.ty(x) for x in e.args[0].elts]
            out = ANY
            for t in args:
                out = t if out == ANY else self.unify(out, t, e, f"{base}() of different types")
            return out
        if base in ('abs', 'fabs'):
            t = args[0] if args else ANY
            if isinstance(t, Ty) and t.w != 0:
                self.err(f"{base}() of a time point ({t})", e)
            return t
        if base == 'square':
            t = args[0] if args else ANY
            if isinstance(t, Ty):
                if t.w != 0:
                    self.err(f"square of a time point ({t})", e)
                return Ty(Fraction(0), t.k * 2)
            return t
        if base in ('diff', 'ediff1d'):
            # consecutive differences: a duration for time points, the same type otherwise
            t = args[0] if args else ANY
            if isinstance(t, Ty):
                return Ty(Fraction(0), t.k)
            return t
        if base == 'sqrt':
            t = args[0] if args else ANY
            if isinstance(t, Ty):
                if t.w != 0:
                    self.err(f"sqrt of a time point ({t})", e)
                return Ty(Fraction(0), t.k / 2)
            return t
        if base in ('len', 'range', 'xrange', 'int', 'searchsorted', 'arange', 'isinstance', 'enumerate', 'all', 'any',
                    'logical_and', 'logical_or', 'ones', 'ones_like', 'bool'):
            return SCAL
        if base in ('zeros', 'empty', 'zeros_like', 'empty_like'):
            return ANY          # element type inferred from the first store
        if base in ('sum', 'array', 'asarray', 'sort', 'unique', 'concatenate', 'append', 'float', 'copy', 'cumsum',
                    'tolist', 'insert', 'list', 'float64', 'double'):
            if base == 'insert' and len(args) >= 3:
                return self.unify(args[0], args[2], e, 'np.insert of different types')
            if base in ('concatenate',):
                return args[0] if args else ANY
            if base == 'append' and len(args) == 2:
                return self.unify(args[0], args[1], e, 'np.append of different types')
            if args:
                return args[0]
            if isinstance(e.func, ast.Attribute):
                return self.ty(e.func.value)
            return ANY
        if isinstance(e.func, ast.Name) and e.func.id in self.sigs:
            sig = self.sigs[e.func.id]
            for k, (a, p) in enumerate(zip(args, sig.params)):
                if p != ANY and a != ANY:
                    self.unify(p, a, e, f"argument {k + 1} of {e.func.id}()")
            return sig.ret
        return ANY

    # ------------------------------------------------------------------
    def _bind(self, tgt, t, node, elem: bool = False):
        if isinstance(tgt, ast.Name):
            old = self.env.get(tgt.id)
            if isinstance(t, Ty) and t.w not in (0, 1):
                self.err(f"`{tgt.id}` is assigned a value of affine weight {t.w} ({t}): not a time point, not a duration", node)
            if not elem:
                # rebinding a name: strong update
                self.env[tgt.id] = t
                return
            # element store: the array's element type must agree
            if old is None or old == ANY or isinstance(old, Lit):
                self.env[tgt.id] = t if not isinstance(t, Lit) else (SCAL if t.v != 0 else (old if isinstance(old, Lit) else t))
            elif t != ANY:
                self.unify(old, t, node, f"element of `{tgt.id}`")
        elif isinstance(tgt, (ast.Tuple, ast.List)):
            if isinstance(t, tuple) and t and t[0] == 'tuple' and len(t[1]) == len(tgt.elts):
                for x, tt in zip(tgt.elts, t[1]):
                    self._bind(x, tt, node)
            else:
                for x in tgt.elts:
                    self._bind(x, ANY if not isinstance(t, (Ty, Lit)) else t, node)
        elif isinstance(tgt, ast.Subscript):
            base = tgt.value
            self.ty(tgt)  # index typing
            if isinstance(base, ast.Name):
                self._bind(ast.Name(id=base.id, ctx=ast.Store()), t, node, elem=True)
            elif isinstance(base, ast.Attribute) and base.attr in self.self_attrs:
                self.unify(self.self_attrs[base.attr], t, node, f"store into .{base.attr}")
        elif isinstance(tgt, ast.Attribute):
            if tgt.attr in self.self_attrs:
                self.unify(self.self_attrs[tgt.attr], t, node, f"store into .{tgt.attr}")

    @staticmethod
    def _join(a: dict, b: dict) -> dict:
        out = {}
        for k in set(a) | set(b):
            x, y = a.get(k, ANY), b.get(k, ANY)
            if x == y:
                out[k] = x
            elif x == ANY or (isinstance(x, Lit) and x.v == 0):
                out[k] = y
            elif y == ANY or (isinstance(y, Lit) and y.v == 0):
                out[k] = x
            elif isinstance(x, Lit) and y == SCAL or isinstance(y, Lit) and x == SCAL:
                out[k] = SCAL
            elif isinstance(x, Lit) and isinstance(y, Lit):
                out[k] = SCAL
            else:
                out[k] = ANY
        return out

    def run(self):
        self.block(self.fn.body)
        return self

    def block(self, body):
        for st in body:
            if isinstance(st, ast.Assign):
                t = self.ty(st.value)
                for tg in st.targets:
                    self._bind(tg, t, st)
            elif isinstance(st, ast.AugAssign):
                fake = ast.BinOp(left=_load(st.target), op=st.op, right=st.value)
                ast.copy_location(fake, st)
                t = self.ty(fake)
                self._bind(st.target, t, st)
            elif isinstance(st, ast.Return):
                if st.value is not None:
                    self.returns.append((self.ty(st.value), st))
            elif isinstance(st, ast.If):
                self.ty(st.test)
                e0 = dict(self.env)
                self.block(st.body)
                e1 = self.env
                self.env = dict(e0)
                self.block(st.orelse)
                self.env = self._join(e1, self.env)
            elif isinstance(st, ast.While):
                self.ty(st.test)
                e0 = dict(self.env)
                self.block(st.body)
                self.env = self._join(e0, self.env)
                # second pass: types are stable across iterations
                e1 = dict(self.env)
                self.ty(st.test)
                self.block(st.body)
                self.env = self._join(e1, self.env)
            elif isinstance(st, ast.For):
                it = self.ty(st.iter)
                e0 = dict(self.env)
                self._bind(st.target, it, st)
                self.block(st.body)
                self.env = self._join(e0, self.env)
            elif isinstance(st, ast.With):
                self.block(st.body)
            elif isinstance(st, ast.Expr):
                self.ty(st.value)
            elif isinstance(st, ast.Assert):
                self.ty(st.test)
            elif isinstance(st, ast.Try):
                self.block(st.body)
                for h in st.handlers:
                    self.block(h.body)
            elif isinstance(st, ast.FunctionDef):
                pass


def _load(t):
    return ast.parse(ast.unparse(t), mode='eval').body
