"""Engine F: small abstract interpretations.

UpperBound: values are bounded above by k*L (k a non-negative rational, L a designated parameter) or TOP.
Used for R16.1: every value returned by `get_tau` is <= limit/2.
"""
from __future__ import annotations

import ast
from fractions import Fraction
from typing import Dict, List, Optional, Tuple

TOP = None   # no upper bound known


def _min(a, b):
    if a is TOP:
        return b
    if b is TOP:
        return a
    return min(a, b)


def _max(a, b):
    if a is TOP or b is TOP:
        return TOP
    return max(a, b)


class UpperBound:
    """Abstract interpreter for straight-line/branching numeric code (no loops), inlining local helpers."""

    def __init__(self, helpers: Dict[str, ast.FunctionDef]):
        self.helpers = dict(helpers)
        self.trace: List[str] = []

    def run(self, fn: ast.FunctionDef, arg_bounds: List[Optional[Fraction]], depth: int = 0) -> List[Tuple[Optional[Fraction], ast.AST]]:
        """-> [(bound of returned value, return node)]"""
        env: Dict[str, Optional[Fraction]] = {}
        for a, b in zip(fn.args.args, arg_bounds):
            env[a.arg] = b
        for st in fn.body:
            if isinstance(st, ast.FunctionDef):
                self.helpers[st.name] = st
        rets: List[Tuple[Optional[Fraction], ast.AST]] = []
        self.block(fn.body, env, rets, depth)
        return rets

    # ------------------------------------------------------------------
    def ev(self, e: ast.AST, env, depth: int) -> Optional[Fraction]:
        if isinstance(e, ast.Constant):
            if isinstance(e.value, (int, float)) and not isinstance(e.value, bool) and e.value <= 0:
                return Fraction(0)
            return TOP
        if isinstance(e, ast.Name):
            return env.get(e.id, TOP)
        if isinstance(e, ast.BinOp):
            a, b = self.ev(e.left, env, depth), self.ev(e.right, env, depth)
            if isinstance(e.op, ast.Div) and isinstance(e.right, ast.Constant) and isinstance(e.right.value, (int, float)) \
                    and e.right.value > 0:
                return TOP if a is TOP else a / Fraction(str(e.right.value))
            if isinstance(e.op, ast.Mult):
                for c, o in ((e.left, b), (e.right, a)):
                    if isinstance(c, ast.Constant) and isinstance(c.value, (int, float)) and c.value >= 0:
                        return TOP if o is TOP else o * Fraction(str(c.value))
                return TOP
            if isinstance(e.op, ast.Add):
                return TOP if (a is TOP or b is TOP) else a + b
            return TOP      # differences, general quotients: no upper bound without lower bounds
        if isinstance(e, ast.Call):
            fn = e.func.id if isinstance(e.func, ast.Name) else None
            args = e.args
            if fn in ('min', 'fmin') or (isinstance(e.func, ast.Attribute) and e.func.attr in ('minimum', 'fmin')):
                if len(args) == 1 and isinstance(args[0], (ast.List, ast.Tuple)):
                    args = args[0].elts
                out = TOP
                for a in args:
                    out = _min(out, self.ev(a, env, depth))
                return out
            if fn in ('max', 'fmax'):
                if len(args) == 1 and isinstance(args[0], (ast.List, ast.Tuple)):
                    args = args[0].elts
                out = Fraction(0)
                for a in args:
                    out = _max(out, self.ev(a, env, depth))
                return out
            if fn in self.helpers and depth < 4:
                rets = self.run(self.helpers[fn], [self.ev(a, env, depth) for a in args], depth + 1)
                out: Optional[Fraction] = Fraction(0)
                for b, _ in rets:
                    out = _max(out, b)
                return out if rets else TOP
            return TOP
        if isinstance(e, ast.IfExp):
            e1, e2 = dict(env), dict(env)
            self.refine(e.test, e1, True)
            self.refine(e.test, e2, False)
            return _max(self.ev(e.body, e1, depth), self.ev(e.orelse, e2, depth))
        if isinstance(e, ast.UnaryOp) and isinstance(e.op, ast.UAdd):
            return self.ev(e.operand, env, depth)
        return TOP

    def refine(self, test: ast.AST, env, truth: bool):
        """x > y false / x <= y true  =>  bound(x) <= bound(y)   (names only)"""
        if isinstance(test, ast.BoolOp):
            if isinstance(test.op, ast.And) and truth:
                for v in test.values:
                    self.refine(v, env, True)
            if isinstance(test.op, ast.Or) and not truth:
                for v in test.values:
                    self.refine(v, env, False)
            return
        if isinstance(test, ast.Compare) and len(test.ops) == 1 and isinstance(test.left, ast.Name) and \
                isinstance(test.comparators[0], ast.Name):
            x, y = test.left.id, test.comparators[0].id
            op = test.ops[0]
            le = None     # (small, big)
            if isinstance(op, (ast.Lt, ast.LtE)):
                le = (x, y) if truth else (y, x)
            elif isinstance(op, (ast.Gt, ast.GtE)):
                le = (y, x) if truth else (x, y)
            if le:
                s, b = le
                env[s] = _min(env.get(s, TOP), env.get(b, TOP))

    def block(self, body, env, rets, depth) -> bool:
        """returns True if the block always returns"""
        for st in body:
            if isinstance(st, ast.FunctionDef):
                continue
            if isinstance(st, ast.Expr):
                continue
            if isinstance(st, ast.Pass):
                continue
            if isinstance(st, ast.Assign):
                tg = st.targets[0]
                if isinstance(tg, ast.Tuple) and isinstance(st.value, ast.Tuple) and len(tg.elts) == len(st.value.elts):
                    vals = [self.ev(v, env, depth) for v in st.value.elts]
                    for t, v in zip(tg.elts, vals):
                        if isinstance(t, ast.Name):
                            env[t.id] = v
                elif isinstance(tg, ast.Name):
                    env[tg.id] = self.ev(st.value, env, depth)
                continue
            if isinstance(st, ast.AugAssign) and isinstance(st.target, ast.Name):
                fake = ast.BinOp(left=ast.Name(id=st.target.id, ctx=ast.Load()), op=st.op, right=st.value)
                env[st.target.id] = self.ev(fake, env, depth)
                continue
            if isinstance(st, ast.Return):
                rets.append((self.ev(st.value, env, depth) if st.value is not None else TOP, st))
                return True
            if isinstance(st, ast.If):
                e1, e2 = dict(env), dict(env)
                self.refine(st.test, e1, True)
                self.refine(st.test, e2, False)
                r1 = self.block(st.body, e1, rets, depth)
                r2 = self.block(st.orelse, e2, rets, depth)
                if r1 and r2:
                    return True
                live = [e for e, r in ((e1, r1), (e2, r2)) if not r]
                keys = set()
                for e in live:
                    keys |= set(e)
                env.clear()
                for k in keys:
                    v: Optional[Fraction] = Fraction(0)
                    for e in live:
                        v = _max(v, e.get(k, TOP))
                    env[k] = v
                continue
            # anything else: forget everything it assigns
            for x in ast.walk(st):
                if isinstance(x, ast.Name) and isinstance(x.ctx, ast.Store):
                    env[x.id] = TOP
        return False
