"""CLI driver: `check <property id> [--tier quick|thorough] [--repo DIR] [--replay FILE]`.

Exit codes: 0 = every rule instance held (known findings are printed as KNOWN-FINDING lines);
1 = at least one unlisted violation (one `VIOLATION property=<id> replay=<path>` line each);
2 = ANALYSIS-ERROR (inconclusive instance, vanished anchor, parse failure, crash): the checker
has to be taught the new shape - never reported as a violation, never a silent pass.
"""
from __future__ import annotations

import argparse
import json
import os
import sys
import time
import traceback
from typing import Dict, List

from .frontend import Repo, FrontEndError
from .report import Ob, KnownFindings, write_evidence, write_replay


class Context:
    """Per-run shared state: parsed repository and lazily built engines."""

    def __init__(self, root: str, level: int = 0):
        from . import canon
        canon.SYMMETRIC_CALLS.clear()        # per-run: symmetries are re-established on the tree being analysed
        self.root = root
        self.level = level
        self.repo = Repo(root, level)
        self._cache = {}

    def get(self, key, builder):
        if key not in self._cache:
            self._cache[key] = builder(self)
        return self._cache[key]


def run_rules(prop: str, spec, ctx) -> List[Ob]:
    """All rule functions of a property.  A rule function that gives up on a shape it cannot evaluate (engine
    exception Inconclusive / CanonError) yields one undecided obligation instead of aborting the whole check: the
    other rules still report what they can decide."""
    from .compare import Inconclusive
    from . import canon as C
    from .report import inconclusive
    obs: List[Ob] = []
    for k, rule_fn in enumerate(spec['rules']):
        try:
            got = rule_fn(ctx)
            for o_ in got:
                o_.extra.setdefault('group', k + 1)
            obs.extend(got)
        except (Inconclusive, C.CanonError) as e:
            obs.append(inconclusive(f"R{prop[1:]}.engine", f"rule group {k + 1} of {prop} can be evaluated on this tree",
                                    ctx.root if hasattr(ctx, 'root') else '', f"{type(e).__name__}: {e}",
                                    construct=f"{prop}::rule-group-{k + 1}"))
    return obs


def run_check(prop: str, tier: str, root: str, out=sys.stdout) -> int:
    from .props import PROPS
    t0 = time.time()
    if prop not in PROPS:
        print(f"ANALYSIS-ERROR property={prop} unknown property id", file=out)
        return 2
    spec = PROPS[prop]
    seed = int(os.environ.get('VERIF_SEED', '0') or 0)
    try:
        ctx = Context(root)
        obs: List[Ob] = run_rules(prop, spec, ctx)
        obs = _second_opinion(prop, spec, root, obs, out)
        # anti-vacuity: minimum instance counts per rule
        counts = {}
        for o in obs:
            if o.status in ('ok', 'violation'):
                counts[o.rule] = counts.get(o.rule, 0) + 1
        from .report import inconclusive
        for rule, mn in spec.get('min_instances', {}).items():
            if counts.get(rule, 0) < mn:
                obs.append(inconclusive(rule, f'at least {mn} instances of {rule} are found in the tree '
                                        f'(found {counts.get(rule, 0)}): the rule would pass vacuously',
                                        root))
        extra_cov = {}
        if tier == 'thorough':
            from .selftest import run_corpus
            extra_cov = run_corpus(ctx, prop, seed)
    except FrontEndError as e:
        print(f"ANALYSIS-ERROR property={prop} {e}", file=out)
        _fallback_evidence(prop, tier, spec, time.time() - t0, str(e), seed)
        return 2
    except Exception as e:  # a crash must never look like a violation
        tb = traceback.format_exc()
        print(f"ANALYSIS-ERROR property={prop} internal error: {e!r}", file=out)
        print(tb, file=sys.stderr)
        _fallback_evidence(prop, tier, spec, time.time() - t0, repr(e), seed)
        return 2

    known = KnownFindings()
    viol = [o for o in obs if o.status == 'violation']
    inconc = [o for o in obs if o.status == 'inconclusive']
    new_viol = []
    for o in viol:
        k = known.match(prop, o)
        if k is not None:
            print(f"KNOWN-FINDING: property={prop} {o.rule} {o.key} -- {k.get('what', o.title)}", file=out)
        else:
            new_viol.append(o)
    for o in new_viol:
        path = write_replay(prop, o)
        print(f"VIOLATION property={prop} replay={path}", file=out)
        print(f"  {o.rule}: {o.title}\n  at {o.where}\n  " + o.detail.replace('\n', '\n  '), file=out)
    for o in inconc:
        print(f"ANALYSIS-ERROR property={prop} {o.rule}: {o.title} at {o.where}: {o.detail}", file=out)
    wall = time.time() - t0
    decided = [o for o in obs if o.status in ('ok', 'violation')]
    corpus_anomaly = False
    for vid in extra_cov.get('selftest_missed', []):
        print(f"SELFTEST-MISS property={prop} curated violating variant `{vid}` was not reported (checker gap, not a finding on /repo)", file=out)
    for vid in extra_cov.get('selftest_false_alarms', []):
        print(f"SELFTEST-FALSE-ALARM property={prop} neutral refactoring `{vid}` was flagged (checker defect, not a finding on /repo)", file=out)
    if extra_cov.get('selftest'):
        st = extra_cov['selftest']
        print(f"{prop}: self-validation corpus: curated {st['curated_reported']}/{st['curated_violating']} reported"
              f"{' (stale: ' + ','.join(st['curated_stale']) + ')' if st['curated_stale'] else ''}, neutral "
              f"{st['neutral_silent']}/{st['neutral_refactorings']} silent, sweep {st['sweep_reported_violation']} flagged + "
              f"{st['sweep_inconclusive']} inconclusive of {st['sweep_variants']}", file=out)
    write_evidence(prop, tier, spec['level'], obs, wall, spec['explanation'], spec['assumptions'], len(new_viol),
                   extra_cov=dict(extra_cov, **_level_cov(spec, obs)), seed=seed)
    n_ok = sum(1 for o in decided if o.status == 'ok')
    print(f"{prop}: {len(decided)} rule instances over {len(ctx.repo.files_read)} files "
          f"({n_ok} ok, {len(viol)} violations of which {len(viol) - len(new_viol)} known, "
          f"{len(inconc)} inconclusive) in {wall:.2f}s [{tier}]", file=out)
    if new_viol:
        return 1
    if inconc or corpus_anomaly:
        if corpus_anomaly:
            print(f"ANALYSIS-ERROR property={prop} self-validation corpus anomaly: {extra_cov['corpus_anomalies'][:3]}",
                  file=out)
        return 2
    return 0


# rules whose instances are equivalence proofs between two programs (siblings, train swap, operand swap, projection,
# reference programs): a proof that does not go through on an unfamiliar shape is "undecided", not a disagreement
EQUIVALENCE_RULES = {'R12.2', 'R12.3', 'R12.2-L2', 'R07.1', 'R07.1-L5', 'R07.1-helper', 'R04.1', 'R06.5', 'R06.7', 'R09.8', 'R11.6',
                     'R05.2', 'R02.6', 'R11.5'}


# ... unless the comparison was aligned and found different values: the two programs store, return or carry
# different canonical values at an aligned point (as opposed to shapes that could not be aligned or conditions whose
# equivalence needs an invariant the engine does not have)
DEFINITE_MISMATCH_KINDS = ('value', 'store', 'store-count', 'return', 'effects', 'condition', 'alloc')


def _second_opinion(prop, spec, root, obs: List[Ob], out) -> List[Ob]:
    """Rules that do not hold on the source as written are re-examined on its normal form (normalize.py): the
    normal form is a value-equivalent program, so a rule discharged there is discharged for the source.  A rule is
    reported as violated (or inconclusive) only if it is so on both."""
    known = KnownFindings()
    bad = {o.rule for o in obs if o.status == 'inconclusive'
           or (o.status == 'violation' and known.match(prop, o) is None)}
    mins = spec.get('min_instances', {})
    counts = {}
    for o in obs:
        if o.status in ('ok', 'violation'):
            counts[o.rule] = counts.get(o.rule, 0) + 1
    bad |= {r for r, mn in mins.items() if counts.get(r, 0) < mn}
    if not bad:
        return obs
    try:
        ctx1 = Context(root, level=1)
        obs1: List[Ob] = run_rules(prop, spec, ctx1)
    except Exception as e:      # the normal form could not be analysed: the first opinion stands
        print(f"{prop}: normal form not analysable ({e!r}); reporting on the source as written", file=out)
        return obs
    out_obs = list(obs)
    # a rule group that could not be evaluated on the source as written (engine exception) but can be on the normal form: its
    # obligations are those of the normal form (they enter the decision below like any other obligation of that form)
    eng_rule = f"R{prop[1:]}.engine"
    for o in [o for o in obs if o.rule == eng_rule and o.status == 'inconclusive']:
        grp_id = (o.construct or '').rsplit('-', 1)[-1]
        if any(o1.rule == eng_rule and (o1.construct or '') == (o.construct or '') for o1 in obs1):
            continue
        from_l1 = [o1 for o1 in obs1 if str(o1.extra.get('group')) == grp_id]
        if from_l1:
            for o1 in from_l1:
                o1.extra['analysed'] = 'normal form'
            out_obs = [x for x in out_obs if x is not o] + from_l1
            print(f"{prop}: rule group {grp_id} evaluated on the normal form ({len(from_l1)} obligations)", file=out)
    bad = {o.rule for o in out_obs if o.status == 'inconclusive'
           or (o.status == 'violation' and known.match(prop, o) is None)}
    counts = {}
    for o in out_obs:
        if o.status in ('ok', 'violation'):
            counts[o.rule] = counts.get(o.rule, 0) + 1
    bad |= {r for r, mn in mins.items() if counts.get(r, 0) < mn}
    for r in sorted(bad):
        alt = [o for o in obs1 if o.rule == r]
        dec = [o for o in alt if o.status in ('ok', 'violation')]
        good = all(o.status in ('ok', 'info') or (o.status == 'violation' and known.match(prop, o) is not None)
                   for o in alt)
        if alt and good and len(dec) >= mins.get(r, 1):
            for o in alt:
                o.extra['analysed'] = 'normal form'
            out_obs = [o for o in out_obs if o.rule != r] + alt
            print(f"{prop}: {r} decided on the normal form ({len(dec)} instances)", file=out)
            continue
        # not discharged on either form.  If the source as written only left the rule undecided (an unrecognised
        # shape) while the normal form exhibits a definite disagreement with the rule's expectation, that
        # disagreement is the finding - unless the rule is an equivalence proof (two programs compared by engine C),
        # where a failed proof on an unfamiliar shape is not a disagreement.
        had_violation = any(o.rule == r and o.status == 'violation' and known.match(prop, o) is None for o in obs)
        alt_viol = [o for o in alt if o.status == 'violation' and known.match(prop, o) is None]
        definite = [o for o in alt_viol if any(f"::{k}::" in (o.key or '') for k in DEFINITE_MISMATCH_KINDS)]
        if not had_violation and alt_viol and (r not in EQUIVALENCE_RULES or definite):
            for o in alt_viol:
                o.extra['analysed'] = 'normal form'
                o.detail = (o.detail + '\n' if o.detail else '') + '(found on the normal form of the source)'
            out_obs = [o for o in out_obs if o.rule != r] + alt
            print(f"{prop}: {r} violated on the normal form ({len(alt_viol)} instances); undecided on the source as written",
                  file=out)
            continue
        # neither form discharges the whole rule: the obligations of one function (or pair of functions) that all hold on the
        # normal form are still discharged (the normal form is value-equivalent) - the rule then stays open only for the
        # functions that are open on both forms.  Obligations are grouped by the function named at the head of their title.
        def head(o: Ob) -> str:
            return o.title.split(':')[0].split(' (')[0].strip()
        g1: Dict[str, List[Ob]] = {}
        for o in alt:
            g1.setdefault(head(o), []).append(o)
        open0 = {head(o) for o in out_obs if o.rule == r and (o.status == 'inconclusive' or (
            o.status == 'violation' and known.match(prop, o) is None))}
        swapped = []
        for h in sorted(open0):
            grp = g1.get(h, [])
            if grp and any(o.status in ('ok', 'violation') for o in grp) and all(
                    o.status in ('ok', 'info') or (o.status == 'violation' and known.match(prop, o) is not None) for o in grp):
                for o in grp:
                    o.extra['analysed'] = 'normal form'
                out_obs = [o for o in out_obs if not (o.rule == r and head(o) == h)] + grp
                swapped.append(h)
        if swapped:
            print(f"{prop}: {r}: obligations of {', '.join(swapped)} decided on the normal form", file=out)
        # ... and a function whose obligations are violated on the source as written but only undecided on the normal form (no
        # violation there) is undecided: a rule is reported as violated only if it is violated on both forms
        open0 = {head(o) for o in out_obs if o.rule == r and o.status == 'violation' and known.match(prop, o) is None}
        undecided = []
        for h in sorted(open0):
            grp = g1.get(h, [])
            if grp and any(o.status == 'inconclusive' for o in grp) and not any(
                    o.status == 'violation' and known.match(prop, o) is None for o in grp):
                for o in grp:
                    o.extra['analysed'] = 'normal form'
                out_obs = [o for o in out_obs if not (o.rule == r and head(o) == h)] + grp
                undecided.append(h)
        if undecided:
            print(f"{prop}: {r}: obligations of {', '.join(undecided)} violated on the source as written, undecided on the normal form",
                  file=out)
    return out_obs


def _level_cov(spec, obs) -> dict:
    if spec['level'] == 'translation_validation':
        pts = sum(o.extra.get('points', 0) for o in obs)
        progs = len({o.construct for o in obs if o.rule in ('R12.2', 'R12.3') and '~' in (o.construct or '')})
        return {'programs': max(progs, 1), 'disagreements_checked': pts}
    return {}


def _fallback_evidence(prop, tier, spec, wall, msg, seed):
    try:
        write_evidence(prop, tier, spec['level'], [], wall, spec['explanation'] + f" [run aborted: {msg}]",
                       spec['assumptions'], 0, seed=seed)
    except Exception:
        pass


def replay(prop: str, path: str, root: str) -> int:
    """Re-run the property and report whether the recorded obligation still fails."""
    rec = json.load(open(path))
    from .props import PROPS
    ctx = Context(root)
    obs: List[Ob] = run_rules(prop, PROPS[prop], ctx)
    for o in obs:
        if o.status == 'violation' and o.rule == rec['rule'] and o.key == rec['key']:
            print(f"VIOLATION property={prop} replay={path}")
            print(f"  {o.rule}: {o.title}\n  at {o.where}\n  " + o.detail.replace('\n', '\n  '))
            return 1
    print(f"{prop}: recorded obligation {rec['rule']} {rec['key']} no longer fails")
    return 0


def main(argv=None) -> int:
    ap = argparse.ArgumentParser(prog='check')
    ap.add_argument('prop')
    ap.add_argument('--tier', default=os.environ.get('VERIF_TIER', 'quick'), choices=['quick', 'thorough'])
    ap.add_argument('--repo', default=os.environ.get('PYSPIKE_REPO', '/repo'))
    ap.add_argument('--replay', default=None)
    a = ap.parse_args(argv)
    # evidence of the registered checks describes /repo itself; analyses of other trees (seeded variants,
    # self-validation corpus) write to a scratch directory so that they can never overwrite it
    from . import report
    if os.environ.get('PYSPIKE_EVIDENCE_DIR'):
        report.EVIDENCE_DIR = os.environ['PYSPIKE_EVIDENCE_DIR']
    elif os.path.realpath(a.repo) != os.path.realpath('/repo'):
        import tempfile
        report.EVIDENCE_DIR = tempfile.mkdtemp(prefix='pyspike_sa_evidence_')
    try:
        if a.replay:
            return replay(a.prop, a.replay, a.repo)
        return run_check(a.prop, a.tier, a.repo)
    except Exception as e:
        print(f"ANALYSIS-ERROR property={a.prop} internal error: {e!r}")
        traceback.print_exc()
        return 2


if __name__ == '__main__':
    sys.exit(main())
