"""Function-class rules (C09, C10, C11): semantic tables for integral / avrg / __call__ / get_plottable_data /
mul_scalar of the three classes, sibling agreement between them, and the add kernels' value rules.

Every method is walked path by path (syntax-directed, symbolic value numbering); the value returned on each path is
compared with the documented formula in canonical form.  Index searches appear as opaque call atoms
`np.searchsorted(x, v, side=...)`, so the rules pin (a) which search is used for which bound and (b) the algebra
around it - they do not decide what searchsorted returns.
"""
from __future__ import annotations

import ast
from typing import Dict, List, Optional, Set, Tuple

from . import canon as C
from .canon import Env
from .compare import Side, Region, Inconclusive, Comparer
from .frontend import FuncInfo, Repo
from .ir import IRBuilder, assigned_names
from .report import Ob, ok, violation, inconclusive, info
from .rules_projection import PathExec


def _fn(fi: FuncInfo) -> str:
    return f"{fi.path}::{fi.name}"


class MethodPaths:
    """All paths of a method with their return values.  `for` loops are summarised: their body is executed once
    symbolically (one generic iteration) and the loop is recorded as ('loop', iter, stores/updates)."""

    def __init__(self, fi: FuncInfo, rename: Optional[Dict[str, str]] = None, call_adapters=None):
        self.fi = fi
        self.rename = dict(rename or {})
        self.call_adapters = call_adapters
        self.side = Side(fi, rename=self.rename, label=fi.name)
        if call_adapters:
            self.side.call_adapters = call_adapters
        self.pe = PathExec(self.side)
        bld = IRBuilder()
        self.items = bld.build(fi.node.body)
        self.results: List[Tuple[Optional[C.Term], List[tuple], Env, List[tuple], ast.AST]] = []
        self.loops: List[Tuple[ast.AST, Env, List[tuple]]] = []

    def run(self):
        env = Env(self.rename)
        if self.call_adapters:
            env.call_adapters = self.call_adapters
        self._walk(self.items, env, [], [])
        return self

    def _walk(self, items, env: Env, conds: List[tuple], stores: List[tuple]):
        for k, it in enumerate(items):
            kind = it[0]
            if kind == 'simple':
                reg = Region()
                self.pe.cmp.exec_simple(it[1], env, reg, self.side)
                for key, recs in reg.stores.items():
                    for r in recs:
                        stores.append((key, r))
            elif kind == 'if':
                failed: List[tuple] = []
                for test, body, node in it[1]:
                    c = C.canon_cond(test, env)
                    self._walk(body + items[k + 1:], env.copy(), conds + [C.mk_not(f) for f in failed] + [c], list(stores))
                    failed.append(c)
                self._walk(it[2] + items[k + 1:], env.copy(), conds + [C.mk_not(f) for f in failed], list(stores))
                return
            elif kind == 'return':
                v = C.canon_expr(it[1], env) if it[1] is not None else None
                self.results.append((v, conds, env, stores, it[-1]))
                return
            elif kind == 'raise':
                return
            elif kind == 'for':
                e2 = env.copy()
                tgt = it[1]
                if isinstance(tgt, ast.Name):
                    e2.set(tgt.id, C.atom(('n', tgt.id)))
                for n in assigned_names(it[3]):
                    e2.vals[n] = C.atom(('n', n))      # generic iteration: loop-carried values are symbols
                lst: List[tuple] = []
                try:
                    sub = MethodPathsBody(self, it[3], e2, lst)
                except Inconclusive:
                    raise
                self.loops.append((it[-1], e2, lst))
                for n in assigned_names([it]):
                    env.vals[n] = C.atom(('n', f"{n}@after-loop"))
            elif kind in ('def', 'import', 'jump'):
                continue
            elif kind == 'while':
                raise Inconclusive(f"{self.fi.path}:{it[-1].lineno}: while loop in a class method")
            elif kind == 'try':
                # dispatch try/except: both branches only import; continue
                continue
            else:
                raise Inconclusive(f"{self.fi.path}: item `{kind}`")
        self.results.append((None, conds, env, stores, self.fi.node))


def MethodPathsBody(mp: MethodPaths, items, env: Env, stores: List[tuple]):
    """execute one generic iteration of a loop body (straight-line + ifs joined by executing every branch in turn)"""
    for it in items:
        if it[0] == 'simple':
            reg = Region()
            mp.pe.cmp.exec_simple(it[1], env, reg, mp.side)
            for key, recs in reg.stores.items():
                for r in recs:
                    stores.append((key, r))
        elif it[0] == 'if':
            for test, body, node in it[1]:
                MethodPathsBody(mp, body, env, stores)
            MethodPathsBody(mp, it[2], env, stores)
        elif it[0] in ('jump', 'def', 'import'):
            continue
        elif it[0] == 'while':
            for n in assigned_names([it]):
                env.vals[n] = C.atom(('n', f"{n}@after-loop"))
        else:
            raise Inconclusive(f"{mp.fi.path}: item `{it[0]}` inside a loop body")


# ----------------------------------------------------------------------------
def A(name):
    return C.atom(('n', name))


def attr(obj, a):
    return C.atom(('attr', ('n', obj), a))


def sub_(base: C.Term, idx) -> C.Term:
    b = C.single_atom(base)
    return C.atom(('sub', b, idx))


def sl(base: C.Term, lo, hi) -> C.Term:
    return C.atom(('sub', C.single_atom(base), ('slice', lo, hi, None)))


def call(fn, *args, **kw):
    kws = tuple(sorted(((k, v) for k, v in kw.items()), key=repr))
    return C.atom(('call', fn, tuple(args)) + ((kws,) if kws else ()))


def ssorted(x, v, side):
    return call('np.searchsorted', x, v, side=C.atom(('k', side)))


def ln(x):
    return call('len', x)


def _is_none(name):
    return ('is', A(name), C.atom(('k', None)))


def _pick(results, must: List[tuple], mustnot: List[tuple] = ()):
    out = []
    for r in results:
        conds = r[1]
        if all(m in conds for m in must) and not any(m in conds for m in mustnot):
            out.append(r)
    return out


def _req(obs, rule, fi, title, good, detail, keypart, node=None):
    if good:
        obs.append(ok(rule, f"{fi.name}: {title}", fi.loc(node), construct=f"{_fn(fi)}::{keypart}"))
    else:
        obs.append(violation(rule, f"{fi.name}: {title}", fi.loc(node), key=f"{_fn(fi)}::{keypart}", detail=detail))


# ======================================================================================
# helper calls inside canonical values
# ======================================================================================
def _resolve_helper(repo: Repo, fi: FuncInfo, name: str):
    if not isinstance(name, str) or '.' in name and not name.startswith(fi.name):
        return None
    for cand in (f"{fi.name}.{name}", name):
        if repo.has_func(fi.module, cand):
            return repo.func(fi.module, cand)
    return repo.resolve_symbol(fi.module, name)


_HELPER_RESULTS: dict = {}


def _single_result(h: FuncInfo):
    """(parameter names, returned canonical value) of a helper that has exactly one path"""
    key = (h.module, h.name, id(h.node))
    if key not in _HELPER_RESULTS:
        out = None
        try:
            mp = MethodPaths(h).run()
            res = [r for r in mp.results if r[0] is not None]
            if len(res) == 1 and len(mp.results) == 1 and not res[0][1] and not mp.loops:
                out = ([a.arg for a in h.node.args.args], res[0][0])
        except (Inconclusive, C.CanonError, Exception):
            out = None
        _HELPER_RESULTS[key] = out
    return _HELPER_RESULTS[key]


def expand_helper_calls(repo: Repo, fi: FuncInfo, t):
    """Replace calls of single-path helper functions of the repository (nested, module-level or imported) by the
    value they return, and projections of the resulting tuples by their components: a value computed through a
    helper and the same value written out in place then have the same canonical form."""
    if t is None:
        return None

    def f(a):
        if a[0] == 'call' and isinstance(a[1], str) and len(a) == 3:
            h = _resolve_helper(repo, fi, a[1])
            if h is not None and h is not fi:
                r = _single_result(h)
                if r and len(r[0]) == len(a[2]):
                    m = {('n', p): (x if C.is_poly(x) else C.atom(x)) for p, x in zip(r[0], a[2])}
                    return C.as_poly(C.subst_atoms(r[1], m)) if C.is_poly(C.subst_atoms(r[1], m)) else C.atom(C.subst_atoms(r[1], m))
        if a[0] == 'proj' and len(a) == 3:
            inner = a[1]
            sa = C.single_atom(inner) if C.is_poly(inner) else inner
            if sa is not None and sa[0] == 'tuple' and isinstance(a[2], int) and a[2] < len(sa[1]):
                e = sa[1][a[2]]
                return e if C.is_poly(e) else C.atom(e)
        return None
    return C.rebuild(t, f)


# ======================================================================================
# integral
# ======================================================================================
def integral_spec(ctx, cls: str, rule: str = 'R10.1') -> List[Ob]:
    repo: Repo = ctx.repo
    obs: List[Ob] = []
    fi = repo.func(f"pyspike.{cls}", f"{cls}.integral")
    try:
        mp = MethodPaths(fi).run()
        mp.results = [(expand_helper_calls(repo, fi, r[0]), [expand_helper_calls(repo, fi, c) for c in r[1]]) + tuple(r[2:])
                      for r in mp.results]
    except (Inconclusive, C.CanonError) as e:
        return [inconclusive(rule, f"{fi.name}: paths enumerable", fi.loc(), str(e), construct=_fn(fi))]
    x = attr('self', 'x')
    I0 = sub_(A('interval'), C.ZERO)
    I1 = sub_(A('interval'), C.ONE)
    xlen = ln(x)
    none = _is_none('interval')
    S = ssorted(x, I0, 'right')
    if cls in ('PieceWiseConstFunc', 'PieceWiseLinFunc'):
        E = C.sub(ssorted(x, I1, 'left'), C.ONE)
        same_piece = C.mk_cmp('gt', S, E)
        if cls == 'PieceWiseConstFunc':
            y = attr('self', 'y')
            whole = call('np.sum', C.mul(C.sub(sl(x, C.ONE, None), sl(x, None, C.sub(xlen, C.ONE))), y))
            v_same = C.mul(C.sub(I1, I0), sub_(y, E))
            v_gen = C.add(C.add(
                call('np.sum', C.mul(C.sub(sl(x, C.add(S, C.ONE), C.add(E, C.ONE)), sl(x, S, E)), sl(y, S, E))),
                C.mul(C.sub(sub_(x, S), I0), sub_(y, C.sub(S, C.ONE)))),
                C.mul(C.sub(I1, sub_(x, E)), sub_(y, E)))
        else:
            y1, y2 = attr('self', 'y1'), attr('self', 'y2')

            def iv(x0, x1, a, b, t):
                # linear interpolation between (x0, a) and (x1, b) at t, written out
                return C.add(a, C.div(C.mul(C.sub(b, a), C.sub(t, x0)), C.sub(x1, x0)))
            whole = call('np.sum', C.mul(C.sub(sl(x, C.ONE, None), sl(x, None, C.sub(xlen, C.ONE))), C.scale(C.add(y1, y2), '1/2')))
            Sm = C.sub(S, C.ONE)
            iva = iv(sub_(x, Sm), sub_(x, S), sub_(y1, Sm), sub_(y2, Sm), I0)
            ivb = iv(sub_(x, Sm), sub_(x, S), sub_(y1, Sm), sub_(y2, Sm), I1)
            v_same = C.mul(C.scale(C.add(iva, ivb), '1/2'), C.sub(I1, I0))
            v_gen = C.add(C.add(
                call('np.sum', C.mul(C.sub(sl(x, C.add(S, C.ONE), C.add(E, C.ONE)), sl(x, S, E)),
                                     C.scale(C.add(sl(y1, S, E), sl(y2, S, E)), '1/2'))),
                C.mul(C.sub(sub_(x, S), I0), C.scale(C.add(sub_(y2, Sm), iva), '1/2'))),
                C.mul(C.sub(I1, sub_(x, E)), C.scale(C.add(sub_(y1, E), iv(sub_(x, E), sub_(x, C.add(E, C.ONE)), sub_(y1, E), sub_(y2, E), I1)), '1/2')))
        r_none = _pick(mp.results, [none])
        _req(obs, rule, fi, "without interval: sum over all pieces of width times (mean) value",
             len(r_none) >= 1 and all(r[0] == whole for r in r_none),
             f"found {[C.show(r[0]) if r[0] is not None else None for r in r_none]}\nexpected {C.show(whole)}", 'whole')
        r_same = _pick(mp.results, [C.mk_not(none), same_piece])
        _req(obs, rule, fi, "both ends inside one piece (first breakpoint right of a lies right of the last breakpoint left of b): "
             "value of that piece times (b - a)" + (" with the trapezoid of the two interpolated end values" if cls == 'PieceWiseLinFunc' else ''),
             len(r_same) >= 1 and all(r[0] == v_same for r in r_same),
             f"found {[C.show(r[0]) if r[0] is not None else None for r in r_same][:1]}\nexpected {C.show(v_same)}\n"
             f"(index search must be start = searchsorted(x, a, 'right'), end = searchsorted(x, b, 'left') - 1, branch `start > end`)", 'same-piece')
        r_gen = _pick(mp.results, [C.mk_not(none), C.mk_not(same_piece)])
        _req(obs, rule, fi, "general case: whole pieces between the index bounds plus the partial piece before the first and after the last breakpoint inside [a, b]",
             len(r_gen) >= 1 and all(r[0] == v_gen for r in r_gen),
             f"found {[C.show(r[0]) if r[0] is not None else None for r in r_gen][:1]}\nexpected {C.show(v_gen)}", 'general')
        if not (r_none and r_same and r_gen):
            obs.append(inconclusive(rule, f"{fi.name}: the three cases (no interval / same piece / general) are distinguished by "
                                    f"`interval is None` and `start > end` over the documented index searches", fi.loc(),
                                    f"paths: {[[C.show(c) for c in r[1]] for r in mp.results][:4]}", construct=f"{_fn(fi)}::cases"))
    else:
        y, m = attr('self', 'y'), attr('self', 'mp')
        whole = C.atom(('tuple', (call('np.sum', sl(y, C.ONE, C.sub(ln(y), C.ONE))), call('np.sum', sl(m, C.ONE, C.sub(ln(m), C.ONE))))))
        r_none = _pick(mp.results, [none])
        # `1.0 * np.sum(...)` is the same value
        _req(obs, rule, fi, "without interval: sums of values and of multiplicities over all entries except the two edge entries",
             len(r_none) >= 1 and all(r[0] == whole for r in r_none),
             f"found {[C.show(r[0]) for r in r_none if r[0] is not None]}\nexpected {C.show(whole)}", 'whole')
        gi = fi.name + '.get_indices'
        Sx = lambda iv_: ssorted(x, sub_(iv_, C.ZERO), 'right')
        Ex = lambda iv_: ssorted(x, sub_(iv_, C.ONE), 'left')
        if repo.has_func(fi.module, gi):
            g = repo.func(fi.module, gi)
            try:
                gp = MethodPaths(g).run()
                p = A(g.node.args.args[0].arg)
                want = C.atom(('tuple', (Sx(p), Ex(p))))
                _req(obs, rule, g, "events strictly inside (a, b): first index right of a, end index left of b (open interval)",
                     bool(gp.results) and all(r[0] == want for r in gp.results if r[0] is not None),
                     f"found {[C.show(r[0]) for r in gp.results if r[0] is not None]}\nexpected {C.show(want)}", 'indices')
            except (Inconclusive, C.CanonError) as e:
                obs.append(inconclusive(rule, f"{g.name}: paths enumerable", g.loc(), str(e), construct=_fn(g)))
        # single interval: every path returns (sum of y[S:E], sum of mp[S:E]) with (S, E) = get_indices(interval)
        S_, E_ = Sx(A('interval')), Ex(A('interval'))
        want_single = C.atom(('tuple', (call('np.sum', sl(y, S_, E_)), call('np.sum', sl(m, S_, E_)))))
        singles = [r for r in _pick(mp.results, [C.mk_not(none)]) if r[0] is not None and
                   not any('after-loop' in C.show(x) for x in [r[0]])]
        bad = [r for r in singles if r[0] != want_single]
        _req(obs, rule, fi, "single interval: on every path the result is (sum of values, sum of multiplicities) over the index range "
             "returned by get_indices(interval) - nothing is substituted afterwards",
             bool(singles) and not bad, f"found {[C.show(r[0]) for r in bad][:2]}\nexpected {C.show(want_single)}", 'single-interval',
             bad[0][4] if bad else None)
        for r in _pick(mp.results, [C.mk_not(none)]):
            v = r[0]
            sa = C.single_atom(v) if v is not None and C.is_poly(v) else v
            if sa is None or sa[0] != 'tuple':
                continue
            a, b = sa[1]
            aa, bb = C.single_atom(a), C.single_atom(b)
            if aa and bb and aa[0] == 'call' and bb[0] == 'call' and aa[1] == 'np.sum' and bb[1] == 'np.sum':
                sa_, sb_ = C.single_atom(aa[2][0]), C.single_atom(bb[2][0])
                if sa_ and sb_ and sa_[0] == 'sub' and sb_[0] == 'sub':
                    same = sa_[2] == sb_[2] and sa_[1] == C.single_atom(y) and sb_[1] == C.single_atom(m)
                    _req(obs, 'R11.2', fi, "values and multiplicities are summed over the same index range (value array first, multiplicity second)",
                         same, f"{C.show(a)} / {C.show(b)}", 'same-slice', r[4])
        # several intervals: loop accumulates both sums over the same slice
        for node, e2, lst in mp.loops:
            v = e2.vals.get('value')
            mm = e2.vals.get('multiplicity')
            good = v is not None and mm is not None
            if good:
                dv = C.sub(C.to_poly(v), A('value'))
                dm = C.sub(C.to_poly(mm), A('multiplicity'))
                av, am = C.single_atom(dv), C.single_atom(dm)
                good = bool(av and am and av[0] == 'call' and am[0] == 'call' and av[1] == 'np.sum' and am[1] == 'np.sum')
                if good:
                    s1_, s2_ = C.single_atom(av[2][0]), C.single_atom(am[2][0])
                    good = bool(s1_ and s2_ and s1_[0] == 'sub' and s2_[0] == 'sub' and s1_[2] == s2_[2] and
                                s1_[1] == C.single_atom(y) and s2_[1] == C.single_atom(m))
            _req(obs, 'R11.2', fi, "several intervals: each interval adds its value sum and its multiplicity sum over the same index range",
                 good, '', 'loop-slices', node)
    return obs


def _intermediate_value_spec(repo: Repo, owner: FuncInfo, rule: str) -> List[Ob]:
    obs: List[Ob] = []
    nm = owner.name + '.intermediate_value'
    if not repo.has_func(owner.module, nm):
        return [inconclusive(rule, f"{owner.name}: nested intermediate_value helper found", owner.loc(), construct=_fn(owner))]
    g = repo.func(owner.module, nm)
    ps = [a.arg for a in g.node.args.args]
    try:
        gp = MethodPaths(g).run()
    except (Inconclusive, C.CanonError) as e:
        return [inconclusive(rule, f"{g.name}: paths enumerable", g.loc(), str(e), construct=_fn(g))]
    if len(ps) == 5:
        x0, x1, y0, y1, xx = [A(p) for p in ps]
        want = C.add(y0, C.div(C.mul(C.sub(y1, y0), C.sub(xx, x0)), C.sub(x1, x0)))
        good = bool(gp.results) and all(r[0] == want for r in gp.results if r[0] is not None)
        _req(obs, rule, g, "linear interpolation y0 + (y1 - y0) (x - x0) / (x1 - x0)", good,
             f"found {[C.show(r[0]) for r in gp.results if r[0] is not None]}", 'formula')
    return obs


# ======================================================================================
# avrg
# ======================================================================================
def avrg_spec(ctx, cls: str, rule: str = 'R10.2') -> List[Ob]:
    repo: Repo = ctx.repo
    obs: List[Ob] = []
    fi = repo.func(f"pyspike.{cls}", f"{cls}.avrg")
    try:
        mp = MethodPaths(fi).run()
    except (Inconclusive, C.CanonError) as e:
        return [inconclusive(rule, f"{fi.name}: paths enumerable", fi.loc(), str(e), construct=_fn(fi))]
    x = attr('self', 'x')
    none = _is_none('interval')
    if cls in ('PieceWiseConstFunc', 'PieceWiseLinFunc'):
        meth = 'self.integral'
        whole = C.div(C.atom(('call', meth, ())), C.sub(sub_(x, C.sub(ln(x), C.ONE)), sub_(x, C.ZERO)))
        I0, I1 = sub_(A('interval'), C.ZERO), sub_(A('interval'), C.ONE)
        single = C.div(C.atom(('call', meth, (A('interval'),))), C.sub(I1, I0))
        r_none = _pick(mp.results, [none])
        _req(obs, rule, fi, "without interval: integral over the whole support divided by its length x[-1] - x[0]",
             len(r_none) >= 1 and all(r[0] == whole for r in r_none),
             f"found {[C.show(r[0]) for r in r_none if r[0] is not None]}\nexpected {C.show(whole)}", 'whole')
        r_rest = _pick(mp.results, [C.mk_not(none)])
        singles = [r for r in r_rest if r[0] == single]
        _req(obs, rule, fi, "single interval: integral(interval) / (b - a)", len(singles) >= 1,
             f"found {[C.show(r[0]) for r in r_rest if r[0] is not None]}\nexpected {C.show(single)}", 'single')
        # list of intervals: loop sums integrals and lengths, result is their ratio
        good = False
        detail = ''
        for node, e2, lst in mp.loops:
            it_name = None
            for n in ast.walk(node):
                if isinstance(n, ast.For) and isinstance(n.target, ast.Name):
                    it_name = n.target.id
                    break
            if it_name is None:
                continue
            incs = {nm: C.sub(C.to_poly(v), A(nm)) for nm, v in e2.vals.items() if nm != it_name and C.is_poly(v)}
            iv_ = A(it_name)
            want_int = C.atom(('call', meth, (iv_,)))
            want_len = C.sub(sub_(iv_, C.ONE), sub_(iv_, C.ZERO))
            acc_i = [nm for nm, d in incs.items() if d == want_int]
            acc_l = [nm for nm, d in incs.items() if d == want_len]
            if acc_i and acc_l:
                # after the loop: acc_i /= acc_l and returned
                post = [r for r in r_rest if r[0] is not None and r[0] == C.div(A(f"{acc_i[0]}@after-loop"), A(f"{acc_l[0]}@after-loop"))]
                good = bool(post)
                detail = f"accumulators {acc_i}/{acc_l}; returns {[C.show(r[0]) for r in r_rest if r[0] is not None]}"
        _req(obs, rule, fi, "list of intervals: summed integrals divided by summed interval lengths", good, detail, 'list')
    else:
        # DiscreteFunc.avrg: ratio with the empty convention
        meth = 'self.integral'
        val = C.atom(('proj', C.atom(('call', meth, (A('interval'),))), 0))
        mpv = C.atom(('proj', C.atom(('call', meth, (A('interval'),))), 1))
        norm = ('truth', A('normalize'))
        pos = C.mk_cmp('gt', mpv, C.ZERO)
        r_ratio = _pick(mp.results, [norm, pos])
        r_empty = _pick(mp.results, [norm, C.mk_not(pos)])
        r_raw = _pick(mp.results, [C.mk_not(norm)])
        _req(obs, 'R11.3', fi, "average is summed values / summed multiplicities when the multiplicity is positive",
             len(r_ratio) == 1 and r_ratio[0][0] == C.div(val, mpv), str([C.show(r[0]) for r in r_ratio if r[0] is not None]), 'ratio')
        _req(obs, 'R11.3', fi, "with no event inside the interval the average is the literal 1",
             len(r_empty) == 1 and r_empty[0][0] == C.ONE, str([C.show(r[0]) for r in r_empty if r[0] is not None]), 'empty')
        _req(obs, 'R11.3', fi, "un-normalised result is the summed values", len(r_raw) == 1 and r_raw[0][0] == val,
             str([C.show(r[0]) for r in r_raw if r[0] is not None]), 'raw')
    return obs


# ======================================================================================
# __call__
# ======================================================================================
def call_spec(ctx, cls: str, rule: str = 'R10.3') -> List[Ob]:
    repo: Repo = ctx.repo
    obs: List[Ob] = []
    fi = repo.func(f"pyspike.{cls}", f"{cls}.__call__")
    try:
        mp = MethodPaths(fi).run()
        mp.results = [(expand_helper_calls(repo, fi, r[0]), r[1], r[2],
                       [(k_, (rr[0], rr[1], expand_helper_calls(repo, fi, rr[2])) + tuple(rr[3:])) if rr[0] == 'store' and len(rr) >= 3 else (k_, rr)
                        for k_, rr in r[3]]) + tuple(r[4:]) for r in mp.results]
    except (Inconclusive, C.CanonError) as e:
        return [inconclusive(rule, f"{fi.name}: paths enumerable", fi.loc(), str(e), construct=_fn(fi))]
    x = attr('self', 'x')
    t = A('t')
    xlen = ln(x)
    ind = ssorted(x, t, 'right')
    ind_l = ssorted(x, t, 'left')
    pwl = cls == 'PieceWiseLinFunc'
    if pwl:
        y1, y2 = attr('self', 'y1'), attr('self', 'y2')

        def piece(i):
            # linear interpolation over the piece [x[i-1], x[i]] at t, written out
            x0, x1_, a_, b_ = sub_(x, C.sub(i, C.ONE)), sub_(x, i), sub_(y1, C.sub(i, C.ONE)), sub_(y2, C.sub(i, C.ONE))
            return C.add(a_, C.div(C.mul(C.sub(b_, a_), C.sub(t, x0)), C.sub(x1_, x0)))
        first, lastv = sub_(y1, C.ZERO), sub_(y2, C.sub(ln(y2), C.ONE))

        def mid(i):
            return C.scale(C.add(sub_(y1, C.sub(i, C.ONE)), sub_(y2, C.sub(i, C.const(2)))), '1/2')
    else:
        y = attr('self', 'y')

        def piece(i):
            return sub_(y, C.sub(i, C.ONE))
        first, lastv = sub_(y, C.ZERO), sub_(y, C.sub(ln(y), C.ONE))

        def mid(i):
            return C.scale(C.add(sub_(y, C.sub(i, C.ONE)), sub_(y, C.sub(i, C.const(2)))), '1/2')
    seq = [r for r in mp.results if any(c[0] == 'truth' and 'isinstance' in C.show(c) for c in r[1])]
    sca = [r for r in mp.results if r not in seq]
    # ---- scalar path
    at0 = C.mk_cmp('eq', t, sub_(x, C.ZERO))
    at1 = C.mk_cmp('eq', t, sub_(x, C.sub(xlen, C.ONE)))
    r0 = [r for r in sca if at0 in r[1]]
    _req(obs, rule, fi, "single time on the start edge: the right-hand limit (first piece value)", len(r0) == 1 and r0[0][0] == first,
         str([C.show(r[0]) for r in r0 if r[0] is not None]), 'scalar-start')
    r1 = [r for r in sca if at1 in r[1] and C.mk_not(at0) in r[1]]
    _req(obs, rule, fi, "single time on the end edge: the left-hand limit (last piece value)", len(r1) == 1 and r1[0][0] == lastv,
         str([C.show(r[0]) for r in r1 if r[0] is not None]), 'scalar-end')
    rest = [r for r in sca if C.mk_not(at0) in r[1] and C.mk_not(at1) in r[1]]
    mids = [r for r in rest if r[0] == mid(ind)]
    plain = [r for r in rest if r[0] == piece(ind)]
    _req(obs, rule, fi, "single time on an interior breakpoint: mean of the left and right limits, with the index from searchsorted(x, t, 'right')",
         len(mids) == 1, str([C.show(r[0]) for r in rest if r[0] is not None]), 'scalar-mid')
    _req(obs, rule, fi, "single time inside a piece: the piece value" + (" (linear interpolation over that piece)" if pwl else ''),
         len(plain) == 1, str([C.show(r[0]) for r in rest if r[0] is not None]), 'scalar-piece')
    # ---- sequence path: same rules
    good_seq = len(seq) == 1
    if good_seq:
        v, conds, env, stores, node = seq[0]
        key_ind = C.show(C.single_atom(ind))
        st_ind = [r for k, r in stores if k == key_ind]
        want_clamp = [(C.atom(('cmp', 'eq', ind)) if False else None)]
        # edge correction stores: ind[ind == 0] = 1 ; ind[ind == len(x)] = len(x) - 1
        clamp_ok = len(st_ind) == 2 and st_ind[0][2] == C.ONE and st_ind[1][2] == C.sub(xlen, C.ONE)
        _req(obs, rule, fi, "sequence of times: indices 0 and len(x) (times on the edges) are clamped to the first / last piece",
             clamp_ok, str([(C.show(r[1]), C.show(r[2])) for r in st_ind]), 'seq-clamp', node)
        # interior rule, read off the store into the result array (no local names involved): some store writes
        # mid(X) where X is the clamped index array restricted by a mask
        vst = [r for k, r in stores if k != key_ind]
        mid_ok = False
        X = None
        ysrc = C.single_atom(y1 if pwl else y)
        for r in vst:
            if not C.is_poly(r[2]):
                continue
            for a_ in C.atoms_of(r[2]):
                if a_[0] == 'sub' and a_[1] == ysrc and C.is_poly(a_[2]):
                    for cand in (C.add(a_[2], C.ONE), C.add(a_[2], C.const(2))):
                        if r[2] == mid(cand):
                            mid_ok, X = True, cand
        _req(obs, rule, fi, "sequence of times: at interior breakpoints the value is the mean of the left and right limits (same expression as the single-time path)",
             mid_ok, str([C.show(r[2]) for r in vst]), 'seq-mid', node)
        mask = None
        if X is not None:
            sx = C.single_atom(X)
            if sx is not None and sx[0] == 'sub' and C.is_poly(sx[2]):
                mask = sx[2]
        left_ok = mask is not None and C.single_atom(ind_l) in C.atoms_of(mask)
        _req(obs, rule, fi, "sequence of times: breakpoints are recognised by comparing searchsorted 'right' with searchsorted 'left'",
             left_ok, C.show(mask) if mask is not None else 'missing', 'seq-left', node)
        if mask is not None:
            ms = C.show(mask)

            def conjuncts(m) -> list:
                a_ = C.single_atom(m) if C.is_poly(m) else m
                if a_ is not None and a_[0] == 'call' and a_[1] in ('np.logical_and', 'logical_and') and len(a_[2]) == 2:
                    return conjuncts(a_[2][0]) + conjuncts(a_[2][1])
                if a_ is not None and a_[0] == 'and':
                    return [x for c_ in a_[1] for x in conjuncts(c_)]
                return [a_ if a_ is not None else m]
            got_c = set(conjuncts(mask))
            # right-side index differs from the left-side index (the time is a breakpoint), index > 1 (not the first breakpoint),
            # index < len(x) (not the last one)
            want_c = {('cmp', 'ne', C.sub(ind_l, ind)), ('cmp', 'lt', C.sub(C.ONE, ind)), ('cmp', 'lt', C.sub(ind, xlen))}
            want_alt = {('cmp', 'ne', C.sub(ind, ind_l)), ('cmp', 'lt', C.sub(C.ONE, ind)), ('cmp', 'lt', C.sub(ind, xlen))}
            _req(obs, rule, fi, "sequence of times: the midpoint rule applies only to interior breakpoints (index > 1 and index < len(x))",
                 got_c == want_c or got_c == want_alt, ms, 'seq-mask', node)
    else:
        obs.append(inconclusive(rule, f"{fi.name}: one sequence path found", fi.loc(), f"{len(seq)}", construct=f"{_fn(fi)}::seq"))
    return obs


# ======================================================================================
# plottable data, mul_scalar
# ======================================================================================
def plottable_spec(ctx, cls: str, rule: str = 'R10.4') -> List[Ob]:
    repo = ctx.repo
    obs: List[Ob] = []
    fi = repo.func(f"pyspike.{cls}", f"{cls}.get_plottable_data")
    try:
        mp = MethodPaths(fi).run()
    except (Inconclusive, C.CanonError) as e:
        return [inconclusive(rule, f"{fi.name}: paths enumerable", fi.loc(), str(e), construct=_fn(fi))]
    if len(mp.results) != 1:
        return [inconclusive(rule, f"{fi.name}: straight-line", fi.loc(), construct=_fn(fi))]
    v, conds, env, stores, node = mp.results[0]
    x = attr('self', 'x')
    xlen = ln(x)
    sizes = env.lens
    rets = [n for n in ast.walk(fi.node) if isinstance(n, ast.Return) and isinstance(n.value, ast.Tuple) and len(n.value.elts) == 2]
    if not rets or not all(isinstance(e, ast.Name) for e in rets[0].value.elts):
        return [inconclusive(rule, f"{fi.name}: returns two named arrays", fi.loc(), construct=_fn(fi))]
    XP, YP = [e.id for e in rets[0].value.elts]
    # sizes
    want_x = C.sub(C.scale(xlen, 2), C.const(2))
    got_x = sizes.get(('n', XP))
    _req(obs, rule, fi, "the plotted x-array has 2 len(x) - 2 points (every interior breakpoint twice)", got_x == want_x,
         C.show(got_x) if got_x is not None else 'missing', 'x-size')
    sx = {ast.unparse(n.targets[0]): ast.unparse(n.value) for n in ast.walk(fi.node) if isinstance(n, ast.Assign)}
    _req(obs, rule, fi, "x-array: x[0], then odd positions x[1:], even positions x[1:-1]",
         sx.get(f'{XP}[0]') == 'self.x[0]' and sx.get(f'{XP}[1::2]') == 'self.x[1:]' and sx.get(f'{XP}[2::2]') == 'self.x[1:-1]',
         str({k: v_ for k, v_ in sx.items() if k.startswith(XP)}), 'x-fill')
    if cls == 'PieceWiseConstFunc':
        _req(obs, rule, fi, "y-array: each piece value at both of its ends", sx.get(f'{YP}[::2]') == 'self.y' and sx.get(f'{YP}[1::2]') == 'self.y'
             and sx.get(YP) == 'np.empty(2 * len(self.y))', str({k: v_ for k, v_ in sx.items() if k.startswith(YP)}), 'y-fill')
    else:
        _req(obs, rule, fi, "y-array: start value and end value of each piece alternate", sx.get(f'{YP}[0::2]') == 'self.y1' and sx.get(f'{YP}[1::2]') == 'self.y2'
             and sx.get(YP) == f'np.empty_like({XP})', str({k: v_ for k, v_ in sx.items() if k.startswith(YP)}), 'y-fill')
    return obs


def mul_scalar_spec(ctx, rule: str = 'R09.6') -> List[Ob]:
    repo = ctx.repo
    obs: List[Ob] = []
    for cls, attrs in (('PieceWiseConstFunc', ['y']), ('PieceWiseLinFunc', ['y1', 'y2']), ('DiscreteFunc', ['y'])):
        fi = repo.func(f"pyspike.{cls}", f"{cls}.mul_scalar")
        p = fi.node.args.args[1].arg
        sts = [s for s in fi.node.body if isinstance(s, ast.AugAssign)]
        got = sorted(ast.unparse(s.target) for s in sts)
        good = got == sorted(f"self.{a}" for a in attrs) and all(isinstance(s.op, ast.Mult) and ast.unparse(s.value) == p for s in sts) \
            and len([s for s in fi.node.body if not (isinstance(s, ast.Expr) and isinstance(s.value, ast.Constant))]) == len(sts)
        _req(obs, rule, fi, f"scales exactly the value array(s) {attrs} by the factor and nothing else (breakpoints"
             + (", multiplicities" if cls == 'DiscreteFunc' else '') + " unchanged)", good, str(got), 'scale')
    # copy() goes through the copying constructor with all arrays in order
    for cls, attrs in (('PieceWiseConstFunc', ['x', 'y']), ('PieceWiseLinFunc', ['x', 'y1', 'y2']), ('DiscreteFunc', ['x', 'y', 'mp'])):
        fi = repo.func(f"pyspike.{cls}", f"{cls}.copy")
        rets = [n for n in ast.walk(fi.node) if isinstance(n, ast.Return)]
        good = len(rets) == 1 and isinstance(rets[0].value, ast.Call) and ast.unparse(rets[0].value.func) == cls and \
            [ast.unparse(a) for a in rets[0].value.args] == [f"self.{a}" for a in attrs]
        _req(obs, rule, fi, "copy() rebuilds the object from all of its arrays, in constructor order", good,
             ast.unparse(rets[0].value) if rets else 'no return', 'copy')
        init = repo.func(f"pyspike.{cls}", f"{cls}.__init__")
        ps = [a.arg for a in init.node.args.args[1:]]
        asg = {ast.unparse(s.targets[0]): ast.unparse(s.value) for s in init.node.body if isinstance(s, ast.Assign)}
        good = all(asg.get(f"self.{a}") == f"np.array({p_})" for a, p_ in zip(attrs, ps))
        _req(obs, rule, init, "constructor stores each argument into its own attribute (breakpoints, values ... in order)", good, str(asg), 'init-order')
    return obs


# ======================================================================================
# add(): the object's arrays are replaced by the result of the add kernel on every path (R09.9, R06.8, R11.7)
# ======================================================================================
CLASS_ARRAYS = (('PieceWiseConstFunc', ['x', 'y']), ('PieceWiseLinFunc', ['x', 'y1', 'y2']), ('DiscreteFunc', ['x', 'y', 'mp']))


def add_method_spec(ctx, rule: str = 'R09.9', classes: Optional[Set[str]] = None) -> List[Ob]:
    """Every path through `C.add(self, f)` that returns stores, into each array attribute of self, the matching
    component of ONE call of the add kernel (the function bound by the backend-selection imports of the method) on
    (self's arrays in order, f's arrays in order) - and stores nothing else.  A shortcut that bypasses the kernel, a
    partial update, or a swapped component is a violation: the sum would not be the pointwise sum on that path."""
    repo = ctx.repo
    obs: List[Ob] = []
    for cls, attrs in CLASS_ARRAYS:
        if classes is not None and cls not in classes:
            continue
        fi = repo.func(f"pyspike.{cls}", f"{cls}.add")
        ps = [a.arg for a in fi.node.args.args]
        title = (f"every path replaces ({', '.join('self.' + a for a in attrs)}) by the add kernel's result on "
                 f"(self's arrays, the operand's arrays) and stores nothing else")
        if len(ps) != 2:
            obs.append(inconclusive(rule, f"{fi.name}: add(self, f)", fi.loc(), str(ps), construct=f"{_fn(fi)}::paths"))
            continue
        me, other = ps
        imported = set()
        for n in ast.walk(fi.node):
            if isinstance(n, ast.ImportFrom):
                for a in n.names:
                    if a.name.startswith('add_'):
                        imported.add(a.asname or a.name)
        try:
            mp = MethodPaths(fi).run()
        except (Inconclusive, C.CanonError) as e:
            obs.append(inconclusive(rule, f"{fi.name}: {title}", fi.loc(), str(e), construct=f"{_fn(fi)}::paths"))
            continue
        env0 = Env()
        want_args = tuple(C.canon_expr(ast.parse(f"{o}.{a}", mode='eval').body, env0) for o in (me, other) for a in attrs)
        n_ok = 0
        bad = None
        for v, conds, env_, stores, node in mp.results:
            cs = set(conds)
            if any(C.mk_not(c) in cs for c in cs):
                continue
            got = {}
            extra = []
            for key, rec in stores:
                if key.startswith('attr:' + me + '.') and key.split('.', 1)[1] in attrs and key not in got:
                    got[key] = rec
                else:
                    extra.append(key)
            problem = None
            if extra:
                problem = f"also stores {sorted(set(extra))}"
            call = None
            for k, a in enumerate(attrs):
                rec = got.get(f"attr:{me}.{a}")
                if rec is None:
                    problem = problem or f"self.{a} is not replaced"
                    continue
                sa = C.single_atom(rec[2]) if C.is_poly(rec[2]) else None
                if sa is None or sa[0] != 'proj' or sa[2] != k:
                    problem = problem or f"self.{a} = {C.show(rec[2])[:120]} (expected component {k} of the kernel result)"
                    continue
                inner = C.single_atom(sa[1]) if C.is_poly(sa[1]) else None
                if inner is None or inner[0] != 'call' or inner[1] not in imported or tuple(inner[2]) != want_args \
                        or (len(inner) > 3 and inner[3]):
                    problem = problem or f"self.{a} comes from {C.show(sa[1])[:140]}"
                    continue
                if call is not None and call != sa[1]:
                    problem = problem or "the components come from different kernel calls"
                call = sa[1]
            if problem:
                bad = (problem, conds, node)
                break
            n_ok += 1
        if bad is not None:
            where = fi.loc(bad[2]) if bad[2] is not None else fi.loc()
            obs.append(violation(rule, f"{fi.name}: {title}", where, key=f"{_fn(fi)}::add-path::{bad[0][:80]}",
                                 detail=f"{bad[0]} on the path [{', '.join(C.show(c) for c in bad[1])}]"))
        elif n_ok == 0:
            obs.append(inconclusive(rule, f"{fi.name}: {title}", fi.loc(), 'no feasible path', construct=f"{_fn(fi)}::paths"))
        else:
            obs.append(ok(rule, f"{fi.name}: {title}", fi.loc(), construct=f"{_fn(fi)}::paths", detail=f"{n_ok} path(s)"))
    return obs


# ======================================================================================
# sibling agreement PWC vs PWL
# ======================================================================================
def class_siblings(ctx, rule: str = 'R10.2') -> List[Ob]:
    repo = ctx.repo
    obs: List[Ob] = []
    a = repo.func('pyspike.PieceWiseConstFunc', 'PieceWiseConstFunc.avrg')
    b = repo.func('pyspike.PieceWiseLinFunc', 'PieceWiseLinFunc.avrg')
    from .compare import run_with_local_pairing
    t = "PieceWiseConstFunc.avrg and PieceWiseLinFunc.avrg are the same routine (sibling agreement)"
    try:
        cmp = run_with_local_pairing(lambda ren: Comparer(Side(a, label='PWC'), Side(b, rename=ren, label='PWL'),
                                                          title='PieceWiseConstFunc.avrg ~ PieceWiseLinFunc.avrg'), a, b, {}, {})
        if cmp.mismatches:
            m = cmp.mismatches[0]
            obs.append(violation(rule, t, f"{m.loc_a} / {m.loc_b}", key=f"avrg-siblings::{m.kind}::{m.what}::{m.form_a}::{m.form_b}", detail=m.text()))
        else:
            obs.append(ok(rule, t, f"{a.loc()} / {b.loc()}", construct='avrg-siblings', points=cmp.points))
    except (Inconclusive, C.CanonError) as e:
        obs.append(inconclusive(rule, t, a.loc(), str(e), construct='avrg-siblings'))
    return obs


# ======================================================================================
# add kernels: value rules (R09.5, R11.1)
# ======================================================================================
def add_value_rules(ctx, eng, rule: str = 'R09.5') -> List[Ob]:
    from .rules_kernelspec import _paths, _parts, _returned_names
    obs: List[Ob] = []
    for fam in eng.families:
        if not fam.wrapper.cls:
            continue
        cls = fam.wrapper.cls
        for k in (fam.py, fam.pyx):
            roles, _ = eng.roles_of(k)
            fn = _fn(k)
            if roles is None or not roles.ok:
                obs.append(inconclusive(rule, f"{k.name}: add-merge idiom established", k.loc(), construct=fn))
                continue
            ps = [a.arg for a in k.node.args.args]
            pre, loop, post = _parts(k)
            ret = _returned_names(k)
            c1, c2 = roles.c1, roles.c2
            try:
                lp = _paths(eng, k, loop[2])
            except (Inconclusive, C.CanonError) as e:
                obs.append(inconclusive(rule, f"{k.name}: loop paths enumerable", k.loc(), str(e), construct=fn))
                continue
            for n_path, (env, stores, conds) in enumerate(lp):
                a1 = C.to_poly(env.get(c1)) != A(c1)
                a2 = C.to_poly(env.get(c2)) != A(c2)
                i1 = C.add(A(c1), C.ONE) if a1 else A(c1)
                i2 = C.add(A(c2), C.ONE) if a2 else A(c2)
                byarr: Dict[str, list] = {}
                for key, r in stores:
                    byarr.setdefault(key, []).append(r)
                xs = byarr.get(ret[0], [])
                # breakpoint: the smaller next breakpoint (the advanced operand's)
                T = None
                if len(xs) == 1:
                    T = xs[0][2]
                x1n = C.atom(('sub', ('n', ps[0]), C.add(A(c1), C.ONE)))
                x2n = C.atom(('sub', ('n', ps[len(ps) // 2]), C.add(A(c2), C.ONE)))
                want_T = [x1n] if a1 and not a2 else ([x2n] if a2 and not a1 else [x1n, x2n])
                t = f"{k.name} ({k.path}): one new breakpoint per iteration, the next breakpoint of the operand(s) that advance (path {n_path})"
                if T in want_T:
                    obs.append(ok(rule, t, k.loc(loop[-1]), construct=f"{fn}::bp::{n_path}"))
                else:
                    obs.append(violation(rule, t, k.loc(loop[-1]), key=f"{fn}::breakpoint::path{n_path}",
                                         detail=f"stored {C.show(T) if T is not None else [len(xs)]}; expected {[C.show(w) for w in want_T]}"))
                if cls == 'PieceWiseConstFunc':
                    ys = byarr.get(ret[1], [])
                    want = C.add(C.atom(('sub', ('n', ps[1]), i1)), C.atom(('sub', ('n', ps[3]), i2)))
                    t = f"{k.name} ({k.path}): value of the new piece is the sum of the two operands' current piece values (path {n_path})"
                    if len(ys) == 1 and ys[0][2] == want and xs and ys[0][1] == xs[0][1]:
                        obs.append(ok(rule, t, k.loc(loop[-1]), construct=f"{fn}::val::{n_path}"))
                    else:
                        obs.append(violation(rule, t, k.loc(loop[-1]), key=f"{fn}::value::path{n_path}",
                                             detail=f"{[C.show(r[2]) for r in ys]}; expected {C.show(want)}"))
                elif cls == 'DiscreteFunc':
                    x1p, y1p, m1p, x2p, y2p, m2p = ps
                    for arrk, (pa, pb) in ((1, (y1p, y2p)), (2, (m1p, m2p))):
                        recs = byarr.get(ret[arrk], [])
                        if a1 and a2:
                            want = C.add(C.atom(('sub', ('n', pa), i1)), C.atom(('sub', ('n', pb), i2)))
                            what = 'summed where both operands have an event at that time'
                        elif a1:
                            want = C.atom(('sub', ('n', pa), i1))
                            what = "copied from operand 1 (its event)"
                        else:
                            want = C.atom(('sub', ('n', pb), i2))
                            what = "copied from operand 2 (its event)"
                        t = f"{k.name} ({k.path}): {'value' if arrk == 1 else 'multiplicity'} of the new entry is {what} (path {n_path})"
                        if len(recs) == 1 and recs[0][2] == want and xs and recs[0][1] == xs[0][1]:
                            obs.append(ok('R11.1', t, k.loc(loop[-1]), construct=f"{fn}::d{arrk}::{n_path}"))
                        else:
                            obs.append(violation('R11.1', t, k.loc(loop[-1]), key=f"{fn}::entry{arrk}::path{n_path}",
                                                 detail=f"{[C.show(r[2]) for r in recs]}; expected {C.show(want)}"))
                else:
                    # PWL: end value of the finished piece and start value of the new piece
                    x1p, y11, y12, x2p, y21, y22 = ps

                    def S(arr, idx):
                        return C.atom(('sub', ('n', arr), idx))
                    if a1 and a2:
                        want_end = C.add(S(y12, A(c1)), S(y22, A(c2)))
                        want_start = C.add(S(y11, i1), S(y21, i2))
                    elif a1:
                        interp = C.add(S(y21, A(c2)), C.div(C.mul(C.sub(S(y22, A(c2)), S(y21, A(c2))), C.sub(S(x1p, i1), S(x2p, A(c2)))),
                                                              C.sub(S(x2p, C.add(A(c2), C.ONE)), S(x2p, A(c2)))))
                        want_end = C.add(S(y12, A(c1)), interp)
                        want_start = C.add(S(y11, i1), interp)
                    else:
                        interp = C.add(S(y11, A(c1)), C.div(C.mul(C.sub(S(y12, A(c1)), S(y11, A(c1))), C.sub(S(x2p, i2), S(x1p, A(c1)))),
                                                              C.sub(S(x1p, C.add(A(c1), C.ONE)), S(x1p, A(c1)))))
                        want_end = C.add(S(y22, A(c2)), interp)
                        want_start = C.add(S(y21, i2), interp)
                    ends = byarr.get(ret[2], [])
                    starts = byarr.get(ret[1], [])
                    t = (f"{k.name} ({k.path}): at a new breakpoint the finished piece ends and the new piece starts at own value + the "
                         f"other operand linearly interpolated at that breakpoint (path {n_path})")
                    good = len(ends) == 1 and len(starts) == 1 and ends[0][2] == want_end and starts[0][2] == want_start and \
                        xs and starts[0][1] == xs[0][1] and C.sub(xs[0][1], ends[0][1]) == C.ONE
                    if good:
                        obs.append(ok(rule, t, k.loc(loop[-1]), construct=f"{fn}::lin::{n_path}"))
                    else:
                        obs.append(violation(rule, t, k.loc(loop[-1]), key=f"{fn}::lin-values::path{n_path}",
                                             detail=f"end {[C.show(r[2]) for r in ends]} expected {C.show(want_end)}\nstart {[C.show(r[2]) for r in starts]} expected {C.show(want_start)}"))
            if cls == 'DiscreteFunc':
                # edge fix-up after the merge: y[0] = y[1], mp[0] = mp[1]
                try:
                    ep = _paths(eng, k, [it for it in post if it[0] != 'return'])
                except (Inconclusive, C.CanonError) as e:
                    ep = []
                for n_path, (env, stores, conds) in enumerate(ep):
                    fix = [(key, r) for key, r in stores if r[0] == 'store' and r[1] == C.ZERO]
                    good = len(fix) == 2 and all(C.single_atom(r[2]) is not None and C.single_atom(r[2])[0] == 'sub' and
                                                 C.single_atom(r[2])[2] == C.ONE for key, r in fix) and {key for key, r in fix} == {ret[1], ret[2]}
                    t = f"{k.name} ({k.path}): the start-edge entry copies value and multiplicity of its neighbour (epilogue path {n_path})"
                    if good:
                        obs.append(ok('R11.1', t, k.loc(), construct=f"{fn}::edge::{n_path}"))
                    else:
                        obs.append(violation('R11.1', t, k.loc(), key=f"{fn}::edge-fixup", detail=str([(key, C.show(r[2])) for key, r in fix])))
    return obs


# ======================================================================================
# DiscreteFunc.get_plottable_data: multiplicity-aware smoothing (R11.5)
# ======================================================================================
PLOTTABLE_DISCRETE_SPEC = """
def get_plottable_data(self, k=0):
    # multiplicity-aware smoothing of a discrete profile: every plotted value is the mean over (k+1) profiles' worth
    # of unit contributions, taken from the entry itself and then from its right and left neighbours; the last
    # neighbour on each side contributes only the missing fraction
    if k > 0:
        wanted = (k + 1) * int(self.mp[0])
        out = np.zeros_like(self.y)
        for i in range(len(out)):
            if self.mp[i] >= wanted:
                out[i] = self.y[i] / self.mp[i]
                continue
            acc = self.y[i]
            right = self.mp[i]
            j = i + 1
            while j < len(out):
                if right + self.mp[j] < wanted:
                    acc += self.y[j]
                    right += self.mp[j]
                else:
                    acc += self.y[j] * (wanted - right) / self.mp[j]
                    right += (wanted - right)
                    break
                j += 1
            left = self.mp[i]
            j = i - 1
            while j >= 0:
                if left + self.mp[j] < wanted:
                    acc += self.y[j]
                    left += self.mp[j]
                else:
                    acc += self.y[j] * (wanted - left) / self.mp[j]
                    left += (wanted - left)
                    break
                j -= 1
            out[i] = acc / (left + right - self.mp[i])
        return 1.0 * self.x, out
    else:
        return 1.0 * self.x, 1.0 * self.y / self.mp
"""


def plottable_discrete_spec(ctx, rule: str = 'R11.5') -> List[Ob]:
    """First the whole method against the reference program (insensitive to spelling); the itemised table below is
    consulted only when that comparison does not succeed, to say which entry of the table is off."""
    from .rules_specprog import equal_to_spec
    from .props import eng as _eng
    fi = ctx.repo.func('pyspike.DiscreteFunc', 'DiscreteFunc.get_plottable_data')
    first = equal_to_spec(_eng(ctx), fi, PLOTTABLE_DISCRETE_SPEC, rule,
                          "equals the reference smoothing: window test k > 0, wanted multiplicity (k+1)*mp[0], own-contribution "
                          "shortcut, right and left scans with a fractional last neighbour, normalisation by right + left - own",
                          'smoothing')
    if all(o.status == 'ok' for o in first):
        return first
    table = _plottable_discrete_table(ctx, rule)
    if any(o.status == 'violation' for o in table):
        return table
    return first + [o for o in table if o.status == 'ok']


def _plottable_discrete_table(ctx, rule: str = 'R11.5') -> List[Ob]:
    repo = ctx.repo
    obs: List[Ob] = []
    fi = repo.func('pyspike.DiscreteFunc', 'DiscreteFunc.get_plottable_data')
    fn = _fn(fi)
    ps = [a.arg for a in fi.node.args.args]
    if len(ps) < 2:
        return [inconclusive(rule, f"{fi.name}: has an averaging window parameter", fi.loc(), construct=fn)]
    kname = ps[1]
    env = Env()
    x, y, m = attr('self', 'x'), attr('self', 'y'), attr('self', 'mp')
    top_ifs = [s for s in fi.node.body if isinstance(s, ast.If)]
    if len(top_ifs) != 1 or not top_ifs[0].orelse:
        return [inconclusive(rule, f"{fi.name}: one top-level branch on the window size", fi.loc(), construct=fn)]
    top = top_ifs[0]
    try:
        c = C.canon_cond(top.test, env)
    except C.CanonError as e:
        return [inconclusive(rule, f"{fi.name}: window test canonicalisable", fi.loc(), str(e), construct=fn)]
    _req(obs, rule, fi, "smoothing is applied exactly when the window size is positive", c == C.mk_cmp('gt', A(kname), C.ZERO), C.show(c), 'window-test', top)
    # k = 0: values divided by multiplicities
    rets = [s for s in top.orelse if isinstance(s, ast.Return)]
    good = False
    if rets:
        rv = C.canon_expr(rets[0].value, env)
        good = rv == C.atom(('tuple', (x, C.div(y, m))))
    _req(obs, rule, fi, "without smoothing the plotted values are the values divided by their multiplicities (time axis unchanged)", good,
         ast.unparse(rets[0].value) if rets else 'no return', 'k0', rets[0] if rets else top)
    body = top.body
    # expected multiplicity
    exp_asg = [s for s in body if isinstance(s, ast.Assign) and isinstance(s.targets[0], ast.Name)]
    loops = [s for s in body if isinstance(s, ast.For)]
    if not exp_asg or len(loops) != 1:
        obs.append(inconclusive(rule, f"{fi.name}: window branch has the expected-multiplicity assignment and one loop over the entries", fi.loc(top), construct=fn))
        return obs
    ename = exp_asg[0].targets[0].id
    ev = C.canon_expr(exp_asg[0].value, env)
    want_e = C.mul(C.add(A(kname), C.ONE), call('int', sub_(m, C.ZERO)))
    _req(obs, rule, fi, "wanted multiplicity is (k+1) profiles' worth: (k+1) * mp[0]", ev == want_e, C.show(ev), 'expected-mp', exp_asg[0])
    lp = loops[0]
    i = lp.target.id if isinstance(lp.target, ast.Name) else 'i'
    E = A(ename)
    yi, mi_ = sub_(y, A(i)), sub_(m, A(i))
    # early exit
    early = [s for s in lp.body if isinstance(s, ast.If) and any(isinstance(z, ast.Continue) for z in s.body)]
    good = False
    detail = ''
    out_arr = None
    if len(early) == 1:
        ce = C.canon_cond(early[0].test, env)
        st = [z for z in early[0].body if isinstance(z, ast.Assign) and isinstance(z.targets[0], ast.Subscript)]
        if st:
            out_arr = ast.unparse(st[0].targets[0].value)
            v = C.canon_expr(st[0].value, env)
            good = ce == C.mk_cmp('ge', mi_, E) and v == C.div(yi, mi_) and ast.unparse(st[0].targets[0].slice) == i
            detail = f"if {C.show(ce)}: {ast.unparse(st[0])}"
    _req(obs, rule, fi, "an entry that already carries the wanted multiplicity is plotted as the mean of its own unit contributions y[i]/mp[i]",
         good, detail, 'early-exit', early[0] if early else lp)
    # final normalisation
    finals = [s for s in lp.body if isinstance(s, ast.Assign) and isinstance(s.targets[0], ast.Subscript) and
              ast.unparse(s.targets[0].value) == (out_arr or 'y_plot')]
    whiles = [s for s in lp.body if isinstance(s, ast.While)]
    if len(whiles) != 2 or not finals:
        obs.append(inconclusive(rule, f"{fi.name}: right scan, left scan and final normalisation found", fi.loc(lp), construct=fn))
        return obs
    # accumulators: the names initialised from mp[i] before each scan
    inits = {s.targets[0].id: s.value for s in lp.body if isinstance(s, ast.Assign) and isinstance(s.targets[0], ast.Name)}
    accs = [n for n, v in inits.items() if C.canon_expr(v, env) == mi_]
    ysum = [n for n, v in inits.items() if C.canon_expr(v, env) == yi]
    fv = C.canon_expr(finals[-1].value, env)
    good = len(accs) == 2 and len(ysum) == 1 and fv == C.div(A(ysum[0]), C.sub(C.add(A(accs[0]), A(accs[1])), mi_))
    _req(obs, rule, fi, "the plotted value is the accumulated value divided by the accumulated multiplicity (right + left - own, the entry itself "
         "is counted once)", good, ast.unparse(finals[-1]), 'final', finals[-1])
    if len(accs) == 2 and len(ysum) == 1:
        Y = ysum[0]
        for w, tag in zip(whiles, ('right', 'left')):
            jn = None
            for s in lp.body:
                if isinstance(s, ast.Assign) and isinstance(s.targets[0], ast.Name) and s.lineno < w.lineno:
                    v = C.canon_expr(s.value, env)
                    if v in (C.add(A(i), C.ONE), C.sub(A(i), C.ONE)):
                        jn, jv = s.targets[0].id, v
            acc = None
            for a_ in accs:
                if any(isinstance(z, ast.Name) and z.id == a_ for z in ast.walk(w)):
                    acc = a_
            ifs = [s for s in w.body if isinstance(s, ast.If)]
            good = False
            detail = ''
            if jn and acc and len(ifs) == 1 and ifs[0].orelse:
                J = A(jn)
                yj, mj = sub_(y, J), sub_(m, J)
                cw = C.canon_cond(ifs[0].test, env)
                want_c = C.mk_cmp('lt', C.add(A(acc), mj), E)

                def upd(stmts):
                    e2 = Env()
                    side = Side(fi)
                    pe = PathExec(side)
                    for z in stmts:
                        if isinstance(z, (ast.Assign, ast.AugAssign)):
                            pe.cmp.exec_simple(z, e2, Region(), side)
                    return C.to_poly(e2.get(Y)), C.to_poly(e2.get(acc)), any(isinstance(z, ast.Break) for z in stmts)
                y1_, a1_, b1_ = upd(ifs[0].body)
                y2_, a2_, b2_ = upd(ifs[0].orelse)
                whole_ok = y1_ == C.add(A(Y), yj) and a1_ == C.add(A(acc), mj) and not b1_
                frac = C.div(C.mul(yj, C.sub(E, A(acc))), mj)
                part_ok = y2_ == C.add(A(Y), frac) and a2_ == E and b2_
                step = [z for z in w.body if isinstance(z, ast.AugAssign) and isinstance(z.target, ast.Name) and z.target.id == jn]
                dirn = (isinstance(step[0].op, ast.Add) if tag == 'right' else isinstance(step[0].op, ast.Sub)) if step else False
                wc = C.canon_cond(w.test, env)
                bound_ok = (wc == C.mk_cmp('lt', J, ln(A(out_arr or 'y_plot'))) or wc == C.mk_cmp('lt', J, ln(y))) if tag == 'right' else wc == C.mk_cmp('ge', J, C.ZERO)
                start_ok = jv == (C.add(A(i), C.ONE) if tag == 'right' else C.sub(A(i), C.ONE))
                good = cw == want_c and whole_ok and part_ok and dirn and bound_ok and start_ok
                detail = f"cond ok={cw == want_c} whole={whole_ok} fraction+stop={part_ok} step={dirn} bound={bound_ok} start={start_ok}"
            _req(obs, rule, fi, f"{tag} scan: neighbours are taken whole while the wanted multiplicity is not reached, the last one with the "
                 f"fraction (wanted - reached)/mp[j] of its value, then the scan stops", good, detail, f'scan-{tag}', w)
    return obs
