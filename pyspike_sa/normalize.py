"""Normal form of function bodies (analysis level 1).

Every rewrite below preserves the value semantics of the function (what it returns and which stores it
performs, with the same floating-point operations in the same association); what may change is the
*moment* at which an exception of an ill-formed call would be raised and the identity of temporaries.
None of the twenty properties speaks about either.  A rule that is discharged on the normal form is
therefore discharged for the source as written, and the driver uses the normal form only in that
direction: a rule is reported as violated only when it fails on the source as written AND on its normal
form (see main.run_check).

Rewrites (applied per function, to a fixpoint where noted):

  N1  helper inlining      calls of nested helper functions, and of small private module-level helpers that
                           are not themselves units of analysis, are replaced by the helper body
                           (parameters bound to fresh names, `return e` turned into an assignment)
  N2  conditional exprs    `x = a if c else b`  ->  `if c: x = a  else: x = b`   (also for `return`)
  N3  branch orientation   `if not c: A else: B` -> `if c: B else: A`; likewise `!=`, `is not`, `not in`;
                           `if c: <terminates> else: B` -> `if c: <terminates>` followed by B;
                           `if <negated c>: <terminates>` followed by REST (which terminates) ->
                           `if c: REST` followed by the terminating branch;
                           `if c: continue` followed by REST (in a loop body) -> `if c: pass else: REST`
  N4  comparison direction `a > b` -> `b < a`, `a >= b` -> `b <= a` (operands are side-effect free in this
                           code base: names, subscripts, arithmetic and calls of pure kernels)
  N5  accumulation         `x = x + e` -> `x += e` when every definition of the local x outside such
                           updates is a numeric literal (scalars only: on arrays the two differ)
  N6  temporaries          a local that is defined by a side-effect free expression whose operands are not
                           modified between the definition and its uses is replaced by that expression
                           (hoisted loop invariants, `n = len(x)`, `last = N - 1`, split expressions);
                           a local used exactly once, in the statement that follows its definition(s), is
                           replaced even when the expression calls into the repository
  N7  tuple assignments    `a, b = e1, e2` with independent sides -> `a = e1; b = e2`
"""
from __future__ import annotations

import ast
import copy
from typing import Dict, List, Optional, Set, Tuple

# Units of analysis: rules are anchored on these functions by name, they are never inlined into callers.
ANCHOR_PREFIXES = ()
ANCHORS = {
    'get_tau', 'Interpolate', 'divide_and_conquer', 'resolve_keywords', 'get_min_dist', 'dist_at_t',
    'isi_lengths', 'default_thresh', 'default_thresh_', 'reconcile_spike_trains', 'reconcile_spike_trains_bi',
    'get_min_dist_cython', 'isi_avrg_cython', 'get_tau_cython', 'get_tau_python',
}
# the library's own private functions: units of analysis of the wrapper rules, never dissolved into their callers
# (calls of them may still move with the expression they are part of)
UNITS = {
    '_generic_profile_multi', '_generic_distance_multi', '_generic_distance_matrix', '_spike_sync_values',
    '_spike_train_order_impl', '_spike_directionality_values_impl', '_optimal_spike_train_sorting_from_matrix',
}

# functions of the package by name (filled per repository): used to learn how many values a call returns
ARITY_HELPERS: Dict[str, ast.FunctionDef] = {}
# bare function name -> parameters that only switch diagnostics on (see _diagnostic_flags)
FLAG_PARAMS: Dict[str, Set[str]] = {}
# bare name -> the positional parameter lists of every definition of that name in the package (functions at any depth,
# methods without their receiver, classes through __init__): used to spell keyword arguments positionally
SIGNATURES: Dict[str, List[List[str]]] = {}

PURE_CALLS = {'len', 'max', 'min', 'abs', 'float', 'int', 'fmax', 'fmin', 'fabs', 'sqrt', 'isinstance', 'range',
              'bool', 'tuple', 'slice'}
MAX_HELPER_STMTS = 14


# ----------------------------------------------------------------------------------------------
# small utilities
# ----------------------------------------------------------------------------------------------

def _names_loaded(node: ast.AST) -> Set[str]:
    return {n.id for n in ast.walk(node) if isinstance(n, ast.Name) and isinstance(n.ctx, ast.Load)}


def _base_name(t: ast.AST) -> Optional[str]:
    while isinstance(t, (ast.Subscript, ast.Attribute, ast.Starred)):
        t = t.value
    return t.id if isinstance(t, ast.Name) else None


def _target_names(t: ast.AST, out: Set[str]):
    if isinstance(t, (ast.Tuple, ast.List)):
        for e in t.elts:
            _target_names(e, out)
    else:
        b = _base_name(t)
        if b:
            out.add(b)


def _is_pure_call(c: ast.Call) -> bool:
    f = c.func
    if isinstance(f, ast.Name) and f.id in PURE_CALLS:
        return True
    return False


# Filled by frontend.Repo from the parsed tree before normalising: bare function/method name -> positions of
# the parameters the function may modify in place (position 0 of a method is its receiver); KNOWN_FUNCS are all
# function names defined in the repository (those not in MUTATORS modify none of their arguments).
MUTATORS: Dict[str, Set[int]] = {}
KNOWN_FUNCS: Set[str] = set()
MUTATING_METHODS = {'sort', 'append', 'extend', 'insert', 'pop', 'remove', 'clear', 'reverse', 'fill', 'resize',
                    'put', 'itemset', 'update', 'setdefault', 'popitem', 'add', 'discard', 'partition', 'setfield',
                    'setflags', 'byteswap'}
LIB_MODULES = ('np', 'numpy', 'math', 'plt', 'collections', 'functools', 'os', 'sys')


def _call_kills(c: ast.Call, out: Set[str]):
    """Names that a call may modify in place: resolved through the repository-wide MUTATORS summary; a call of
    an unknown callable (a function-valued parameter, say) may modify any of its arguments."""
    if _is_pure_call(c) or (isinstance(c.func, ast.Name) and c.func.id in ('print', 'repr', 'str', 'format')):
        return
    args = [a.value if isinstance(a, ast.Starred) else a for a in c.args] + [k.value for k in c.keywords]
    if isinstance(c.func, ast.Attribute):
        b = _base_name(c.func.value)
        if b in LIB_MODULES:
            for k in c.keywords:
                if k.arg == 'out' and isinstance(k.value, ast.Name):
                    out.add(k.value.id)
            return
        m = c.func.attr
        if m in MUTATING_METHODS or 0 in MUTATORS.get(m, set()):
            if b:
                out.add(b)
        if m in KNOWN_FUNCS:
            for i, a in enumerate(args):
                if (i + 1) in MUTATORS.get(m, set()) and _base_name(a):
                    out.add(_base_name(a))
        return
    if isinstance(c.func, ast.Name):
        f = c.func.id
        if f not in KNOWN_FUNCS and f in IMPORT_ALIASES and all(r in KNOWN_FUNCS for r in IMPORT_ALIASES[f]):
            # `from .backend import kernel as impl`: the alias modifies what the functions it may stand for modify
            mut = set()
            for r in IMPORT_ALIASES[f]:
                mut |= MUTATORS.get(r, set())
            for i, a in enumerate(args):
                if i in mut and _base_name(a):
                    out.add(_base_name(a))
            return
        if f in KNOWN_FUNCS:
            mut = MUTATORS.get(f, set())
            for i, a in enumerate(args):
                if i in mut and _base_name(a):
                    out.add(_base_name(a))
            if mut and (c.keywords or any(isinstance(a, ast.Starred) for a in c.args)):
                for a in args:
                    if _base_name(a):
                        out.add(_base_name(a))
            return
    for a in args:
        if isinstance(a, ast.Name):
            out.add(a.id)


IMPORT_ALIASES: Dict[str, Set[str]] = {}     # alias -> the function names it is bound to somewhere in the package


def _print_only(stmts: List[ast.stmt]) -> bool:
    """statements that only report: print(...), logging / logger calls, with side-effect free arguments"""
    if not stmts:
        return False
    for st in stmts:
        if isinstance(st, ast.Pass):
            continue
        if not (isinstance(st, ast.Expr) and isinstance(st.value, ast.Call)):
            return False
        c = st.value
        d = ast.unparse(c.func)
        okf = d == 'print' or d.split('.')[0] in ('logging', 'logger', 'log', '_logger', '_log', 'LOGGER', 'LOG') \
            or d.split('.')[-1] in ('debug', 'info') and '.' in d
        if not okf:
            return False
        for a in list(c.args) + [k.value for k in c.keywords]:
            for n in ast.walk(a):
                if isinstance(n, ast.Call):
                    fn_ = ast.unparse(n.func)
                    if fn_ not in ('len', 'str', 'repr', 'float', 'int', 'list', 'tuple', 'format') and not fn_.endswith('.format') \
                            and not fn_.endswith('.tolist') and not fn_.endswith('.join'):
                        return False
                if isinstance(n, (ast.NamedExpr, ast.Yield, ast.Await)):
                    return False
    return True


def _diagnostic_flags(trees: List[ast.Module]):
    """A parameter with a false default (False / None / 0) whose only uses in its function are `if p:` in front of
    statements that only print / log, and being handed on to a parameter of the same kind, switches diagnostics on and
    nothing else: results do not depend on it.  Computed for the whole package by bare function name (all definitions of
    a name must agree), optimistically, removing candidates until nothing changes."""
    FLAG_PARAMS.clear()
    defs: Dict[str, List[ast.FunctionDef]] = {}
    for t in trees:
        for n in ast.walk(t):
            if isinstance(n, ast.FunctionDef):
                defs.setdefault(n.name, []).append(n)
    cand: Dict[str, Set[str]] = {}
    for name, fds in defs.items():
        per = []
        for fd in fds:
            a = fd.args
            ps = a.args + a.kwonlyargs
            dflt = dict(zip([x.arg for x in a.args][len(a.args) - len(a.defaults):], a.defaults))
            dflt.update({x.arg: d for x, d in zip(a.kwonlyargs, a.kw_defaults) if d is not None})
            per.append({p_ for p_, d in dflt.items() if isinstance(d, ast.Constant) and d.value in (False, None, 0) and
                        p_ in ('verbose', 'debug', 'verbosity', 'trace', 'log', 'quiet') or
                        (isinstance(d, ast.Constant) and d.value is False and p_.startswith(('verbose', 'debug', 'print_', 'show_', 'log_')))})
        common = set.intersection(*per) if per else set()
        if common:
            cand[name] = common

    def uses_ok(fd: ast.FunctionDef, p_: str) -> bool:
        par = {}
        for n in ast.walk(fd):
            for c in ast.iter_child_nodes(n):
                par[id(c)] = n
        for n in ast.walk(fd):
            if isinstance(n, ast.Name) and n.id == p_:
                if not isinstance(n.ctx, ast.Load):
                    return False
                q = par.get(id(n))
                if isinstance(q, ast.If) and q.test is n and not q.orelse and _print_only(q.body):
                    continue
                if isinstance(q, ast.keyword) and q.arg is not None:
                    call = par.get(id(q))
                    cn = call.func.id if isinstance(call.func, ast.Name) else (call.func.attr if isinstance(call.func, ast.Attribute) else None)
                    if cn in cand and q.arg in cand[cn]:
                        continue
                    return False
                if isinstance(q, ast.Call) and n in q.args:
                    cn = q.func.id if isinstance(q.func, ast.Name) else (q.func.attr if isinstance(q.func, ast.Attribute) else None)
                    if cn in cand:
                        idx = q.args.index(n)
                        oks = []
                        for fd2 in defs.get(cn, []):
                            ps2 = [x.arg for x in fd2.args.args]
                            if ps2 and ps2[0] in ('self', 'cls') and isinstance(q.func, ast.Attribute):
                                ps2 = ps2[1:]
                            oks.append(idx < len(ps2) and ps2[idx] in cand[cn])
                        if oks and all(oks):
                            continue
                    return False
                return False
        return True
    changed = True
    while changed:
        changed = False
        for name in list(cand):
            for p_ in list(cand[name]):
                if not all(uses_ok(fd, p_) for fd in defs[name]):
                    cand[name].discard(p_)
                    changed = True
            if not cand[name]:
                del cand[name]
    FLAG_PARAMS.update(cand)


def _specialise_flags(tree: ast.Module):
    """N46: diagnostic flags (FLAG_PARAMS) are read as their default: the guarded reports disappear, the flag is no longer
    handed on, the parameter leaves the signature."""
    if not FLAG_PARAMS:
        return

    class T(ast.NodeTransformer):
        def __init__(self):
            self.cur: List[Set[str]] = []

        def visit_FunctionDef(self, node):
            flags = FLAG_PARAMS.get(node.name, set())
            # a nested function sees the flags of the functions around it (closure), unless it binds the name itself
            own = _fn_params(node)
            inherited = {f_ for f_ in (self.cur[-1] if self.cur else set()) if f_ not in own}
            self.cur.append(set(flags) | inherited)
            self.generic_visit(node)
            self.cur.pop()
            if flags:
                a = node.args
                n_pos = len(a.args)
                keep_args, keep_defaults = [], []
                first_default = n_pos - len(a.defaults)
                for i, x in enumerate(a.args):
                    if x.arg in flags:
                        continue
                    keep_args.append(x)
                    if i >= first_default:
                        keep_defaults.append(a.defaults[i - first_default])
                a.args, a.defaults = keep_args, keep_defaults
                kk = [(x, d) for x, d in zip(a.kwonlyargs, a.kw_defaults) if x.arg not in flags]
                a.kwonlyargs, a.kw_defaults = [x for x, _ in kk], [d for _, d in kk]
            if not node.body:
                node.body = [ast.Pass()]
            return node

        def visit_If(self, node):
            self.generic_visit(node)
            flags = self.cur[-1] if self.cur else set()
            if isinstance(node.test, ast.Name) and node.test.id in flags and not node.orelse:
                return ast.copy_location(ast.Pass(), node)
            return node

        def visit_Call(self, node):
            self.generic_visit(node)
            flags = self.cur[-1] if self.cur else set()
            cn = node.func.id if isinstance(node.func, ast.Name) else (node.func.attr if isinstance(node.func, ast.Attribute) else None)
            if cn in FLAG_PARAMS:
                node.keywords = [k for k in node.keywords if not (k.arg in FLAG_PARAMS[cn])]
                while node.args and isinstance(node.args[-1], ast.Name) and node.args[-1].id in flags:
                    node.args = node.args[:-1]
            return node
    T().visit(tree)
    ast.fix_missing_locations(tree)


def compute_mutators(trees: List[ast.Module]):
    """Repository-wide summary (by bare name, merged over same-named functions): which parameters a function may
    modify in place - a store through the parameter or through a local alias of it, or passing it on to a
    function that modifies that position."""
    funcs: List[Tuple[str, ast.FunctionDef, bool]] = []

    def collect(block, in_class):
        for st in block:
            if isinstance(st, ast.FunctionDef):
                funcs.append((st.name, st, in_class))
                collect(st.body, False)
            elif isinstance(st, ast.ClassDef):
                collect(st.body, True)
                classes.append(st)
            elif isinstance(st, (ast.If, ast.Try, ast.For, ast.While, ast.With)):
                for b in _blocks_of(st):
                    collect(b, in_class)
    classes: List[ast.ClassDef] = []
    for t in trees:
        collect(t.body, False)
    KNOWN_FUNCS.clear()
    MUTATORS.clear()
    KNOWN_FUNCS.update(n for n, _, _ in funcs)
    _diagnostic_flags(trees)
    SIGNATURES.clear()

    def sig_of(fd: ast.FunctionDef, drop_first: bool):
        a = fd.args
        if a.vararg or a.posonlyargs or a.kwonlyargs:
            return None
        ps = [x.arg for x in a.args]
        return ps[1:] if drop_first and ps else ps
    for t in trees:
        for n in ast.walk(t):
            if isinstance(n, ast.ClassDef):
                for m in n.body:
                    if isinstance(m, ast.FunctionDef):
                        sg = sig_of(m, True)
                        SIGNATURES.setdefault(n.name if m.name == '__init__' else m.name, []).append(sg)
        method_nodes = {id(m) for n in ast.walk(t) if isinstance(n, ast.ClassDef) for m in n.body if isinstance(m, ast.FunctionDef)}
        for n in ast.walk(t):
            if isinstance(n, ast.FunctionDef) and id(n) not in method_nodes:
                SIGNATURES.setdefault(n.name, []).append(sig_of(n, False))
    # module-level functions by name (a name defined more than once is not used): how many values a call returns
    ARITY_HELPERS.clear()
    seen_names: Dict[str, int] = {}
    for t in trees:
        for st in t.body:
            if isinstance(st, ast.FunctionDef):
                seen_names[st.name] = seen_names.get(st.name, 0) + 1
    for t in trees:
        for st in t.body:
            if isinstance(st, ast.FunctionDef) and seen_names[st.name] == 1:
                ARITY_HELPERS[st.name] = copy.deepcopy(st)
    IMPORT_ALIASES.clear()
    for t in trees:
        for n in ast.walk(t):
            if isinstance(n, ast.ImportFrom):
                for a in n.names:
                    if a.asname and a.asname != a.name:
                        IMPORT_ALIASES.setdefault(a.asname, set()).add(a.name)
    changed = True
    rounds = 0
    while changed and rounds < 10:
        changed = False
        rounds += 1
        for name, fn, in_class in funcs:
            params = [a.arg for a in fn.args.posonlyargs + fn.args.args]
            alias: Dict[str, Set[int]] = {p: {i} for i, p in enumerate(params)}
            # local aliases `v = p`, `v = p.attr`, `v = p[...]` (views)
            for _ in range(3):
                for n in ast.walk(fn):
                    if isinstance(n, ast.Assign) and len(n.targets) == 1 and isinstance(n.targets[0], ast.Name):
                        b = _base_name(n.value) if isinstance(n.value, (ast.Name, ast.Attribute, ast.Subscript)) else None
                        if b in alias:
                            alias.setdefault(n.targets[0].id, set()).update(alias[b])
            mut: Set[int] = set()
            for n in ast.walk(fn):
                tg = []
                if isinstance(n, ast.Assign):
                    tg = n.targets
                elif isinstance(n, (ast.AugAssign, ast.AnnAssign)):
                    tg = [n.target]
                elif isinstance(n, ast.Delete):
                    tg = n.targets
                for t in tg:
                    for e in (t.elts if isinstance(t, (ast.Tuple, ast.List)) else [t]):
                        if isinstance(e, (ast.Subscript, ast.Attribute)):
                            b = _base_name(e)
                            if b in alias:
                                mut |= alias[b]
                        elif isinstance(e, ast.Name) and isinstance(n, ast.AugAssign) and e.id in alias \
                                and e.id in params:
                            # `p += e` modifies an array argument in place (harmless over-approximation for scalars)
                            pass
                if isinstance(n, ast.Call):
                    killed: Set[str] = set()
                    _call_kills(n, killed)
                    for k in killed:
                        if k in alias:
                            mut |= alias[k]
            if mut - MUTATORS.get(name, set()):
                MUTATORS.setdefault(name, set()).update(mut)
                changed = True
    # `C(args)` runs C.__init__(self, args): an argument is modified if __init__ modifies that parameter, and it
    # counts as modified as well when the new object keeps a reference to it (`self.a = p`: a later store through
    # the object would reach the caller's value)
    by_name: Dict[str, List[ast.ClassDef]] = {}
    for c in classes:
        by_name.setdefault(c.name, []).append(c)
    for cname, cs in by_name.items():
        if cname in KNOWN_FUNCS:
            continue                            # a function of the same name exists: stay with the unknown-callee rule
        inits = [next((st for st in c.body if isinstance(st, ast.FunctionDef) and st.name == '__init__'), None) for c in cs]
        if any(i is None for i in inits) or any(c.bases and not (len(c.bases) == 1 and isinstance(c.bases[0], ast.Name)
                                                                 and c.bases[0].id == 'object') for c in cs):
            continue                            # inherited constructor: not summarised
        mut: Set[int] = set()
        for init in inits:
            params = [a.arg for a in init.args.posonlyargs + init.args.args]
            if init.args.vararg or init.args.kwarg:
                mut |= set(range(len(params) + 8))
            mut |= {i - 1 for i in MUTATORS.get('__init__', set()) if i >= 1}
            for n in ast.walk(init):
                if isinstance(n, ast.Assign):
                    if any(isinstance(t, (ast.Attribute, ast.Subscript)) for t in n.targets):
                        for v in _escaping_names(n.value):
                            if v in params:
                                mut.add(params.index(v) - 1)
        KNOWN_FUNCS.add(cname)
        if mut:
            MUTATORS[cname] = {i for i in mut if i >= 0}


COPYING_CALLS = {'array', 'float', 'int', 'len', 'sort', 'sorted', 'copy', 'zeros', 'ones', 'empty', 'str', 'bool'}


def _escaping_names(e: ast.AST) -> Set[str]:
    """Names whose object (not a copy or a number computed from it) may be the value of expression `e`."""
    if isinstance(e, ast.Name):
        return {e.id}
    if isinstance(e, ast.Call):
        f = e.func.attr if isinstance(e.func, ast.Attribute) else (e.func.id if isinstance(e.func, ast.Name) else '')
        if f in COPYING_CALLS:
            return set()
        out: Set[str] = set()
        for a in list(e.args) + [k.value for k in e.keywords]:
            out |= _escaping_names(a)
        return out
    if isinstance(e, (ast.BinOp, ast.UnaryOp, ast.Compare, ast.BoolOp, ast.Constant)):
        return set()                            # arithmetic makes a new value
    out = set()
    for c in ast.iter_child_nodes(e):
        out |= _escaping_names(c)
    return out


_CACHE: Dict[tuple, tuple] = {}


def _invalidate():
    _CACHE.clear()


def mutated_names(node: ast.AST, calls: bool = True) -> Set[str]:
    """Base names assigned, updated, deleted or stored through anywhere inside `node`."""
    key = ('mut', id(node), calls)
    hit = _CACHE.get(key)
    if hit is not None and hit[0] is node:
        return hit[1]
    r = _mutated_names(node, calls)
    _CACHE[key] = (node, r)
    return r


def _mutated_names(node: ast.AST, calls: bool = True) -> Set[str]:
    out: Set[str] = set()
    for n in ast.walk(node):
        if isinstance(n, ast.Assign):
            for t in n.targets:
                _target_names(t, out)
        elif isinstance(n, (ast.AugAssign, ast.AnnAssign)):
            _target_names(n.target, out)
        elif isinstance(n, ast.For):
            _target_names(n.target, out)
        elif isinstance(n, ast.Delete):
            for t in n.targets:
                _target_names(t, out)
        elif isinstance(n, (ast.With,)):
            for it in n.items:
                if it.optional_vars is not None:
                    _target_names(it.optional_vars, out)
        elif isinstance(n, ast.ExceptHandler) and n.name:
            out.add(n.name)
        elif isinstance(n, (ast.FunctionDef, ast.ClassDef)) and n is not node:
            out.add(n.name)
        elif isinstance(n, (ast.Import, ast.ImportFrom)):
            for a in n.names:
                out.add((a.asname or a.name).split('.')[0])
        elif isinstance(n, ast.NamedExpr):
            _target_names(n.target, out)
        elif calls and isinstance(n, ast.Call):
            _call_kills(n, out)
    return out


def _comp_targets(node: ast.AST) -> Set[str]:
    """Names bound by comprehensions inside `node` (their own scope: not locals of the function, but not free names
    of it either)."""
    out: Set[str] = set()
    for n in ast.walk(node):
        if isinstance(n, ast.comprehension):
            _target_names(n.target, out)
    return out


def _is_pure_expr(e: ast.AST) -> bool:
    for n in ast.walk(e):
        if isinstance(n, ast.Call):
            if not _is_pure_call(n):
                return False
        elif isinstance(n, (ast.Lambda, ast.ListComp, ast.SetComp, ast.DictComp, ast.GeneratorExp, ast.Await,
                            ast.Yield, ast.YieldFrom, ast.NamedExpr, ast.Starred, ast.JoinedStr)):
            return False
    return True


def _is_effect_free_expr(e: ast.AST) -> bool:
    """Every call in e is to a side-effect free builtin, a numpy/math function, or a function/method of the
    repository that modifies none of its arguments (MUTATORS summary)."""
    for n in ast.walk(e):
        if isinstance(n, ast.Call):
            if _is_pure_call(n):
                continue
            f = n.func
            if isinstance(f, ast.Attribute) and _base_name(f.value) in LIB_MODULES and f.attr not in ('append', 'insert', 'delete', 'sort'):
                continue
            nm = f.id if isinstance(f, ast.Name) else f.attr if isinstance(f, ast.Attribute) else None
            if nm in KNOWN_FUNCS and not MUTATORS.get(nm) and nm not in MUTATING_METHODS:
                continue
            return False
        elif isinstance(n, (ast.Lambda, ast.Await, ast.Yield, ast.YieldFrom, ast.NamedExpr)):
            return False
    return True


def _size(e: ast.AST) -> int:
    return sum(1 for _ in ast.walk(e))


def terminates(stmts: List[ast.stmt]) -> bool:
    """The statement list cannot fall through its end."""
    if not stmts:
        return False
    s = stmts[-1]
    if isinstance(s, (ast.Return, ast.Raise, ast.Continue, ast.Break)):
        return True
    if isinstance(s, ast.If):
        return bool(s.orelse) and terminates(s.body) and terminates(s.orelse)
    if isinstance(s, ast.Try):
        if s.finalbody and terminates(s.finalbody):
            return True
        body_ok = terminates(s.body + s.orelse) if s.orelse else terminates(s.body)
        return body_ok and all(terminates(h.body) for h in s.handlers)
    if isinstance(s, ast.With):
        return terminates(s.body)
    return False


def _ends_function(stmts: List[ast.stmt]) -> bool:
    """Cannot fall through and does not leave through continue/break (i.e. ends by return/raise)."""
    if not stmts:
        return False
    s = stmts[-1]
    if isinstance(s, (ast.Return, ast.Raise)):
        return True
    if isinstance(s, ast.If):
        return bool(s.orelse) and _ends_function(s.body) and _ends_function(s.orelse)
    if isinstance(s, ast.Try):
        if s.finalbody and _ends_function(s.finalbody):
            return True
        body_ok = _ends_function(s.body + s.orelse) if s.orelse else _ends_function(s.body)
        return body_ok and all(_ends_function(h.body) for h in s.handlers)
    if isinstance(s, ast.With):
        return _ends_function(s.body)
    return False


def _fix(new: ast.AST, old: ast.AST) -> ast.AST:
    ast.copy_location(new, old)
    ast.fix_missing_locations(new)
    return new


def _blocks_of(st: ast.stmt) -> List[List[ast.stmt]]:
    out = []
    for fld in ('body', 'orelse', 'finalbody'):
        b = getattr(st, fld, None)
        if isinstance(b, list) and b and isinstance(b[0], ast.stmt):
            out.append(b)
    for h in getattr(st, 'handlers', []) or []:
        out.append(h.body)
    return out


# ----------------------------------------------------------------------------------------------
# N2: conditional expressions -> statements ; N7: tuple assignments
# ----------------------------------------------------------------------------------------------

def _expand_ifexp(block: List[ast.stmt]) -> List[ast.stmt]:
    out: List[ast.stmt] = []
    for st in block:
        for b in _blocks_of(st):
            b[:] = _expand_ifexp(b)
        # `x = np.float64(A if c else B)`: the conversion applies to whichever value is selected
        if isinstance(st, ast.Assign) and len(st.targets) == 1 and isinstance(st.value, ast.Call) and len(st.value.args) == 1 \
                and not st.value.keywords and isinstance(st.value.args[0], ast.IfExp) \
                and ast.unparse(st.value.func) in ('np.float64', 'np.double', 'float', 'numpy.float64'):
            ie = st.value.args[0]
            mk = lambda v: ast.Call(func=copy.deepcopy(st.value.func), args=[v], keywords=[])
            st.value = ast.copy_location(ast.IfExp(test=ie.test, body=mk(ie.body), orelse=mk(ie.orelse)), st.value)
            ast.fix_missing_locations(st)
        if isinstance(st, ast.Assign) and isinstance(st.value, ast.IfExp) and len(st.targets) == 1 \
                and (isinstance(st.targets[0], ast.Name) or
                     (isinstance(st.targets[0], (ast.Subscript, ast.Attribute)) and _base_name(st.targets[0])
                      and _is_pure_expr(st.targets[0]))):
            # (an element or attribute store: the value is evaluated before the target either way)
            ie = st.value
            a = _fix(ast.Assign(targets=[copy.deepcopy(st.targets[0])], value=ie.body), ie.body)
            b = _fix(ast.Assign(targets=[copy.deepcopy(st.targets[0])], value=ie.orelse), ie.orelse)
            new = _fix(ast.If(test=ie.test, body=_expand_ifexp([a]), orelse=_expand_ifexp([b])), st)
            out.append(new)
        elif isinstance(st, ast.Return) and isinstance(st.value, ast.IfExp):
            ie = st.value
            a = _fix(ast.Return(value=ie.body), ie.body)
            b = _fix(ast.Return(value=ie.orelse), ie.orelse)
            out.append(_fix(ast.If(test=ie.test, body=_expand_ifexp([a]), orelse=_expand_ifexp([b])), st))
        elif isinstance(st, ast.Assign) and len(st.targets) == 1 and isinstance(st.targets[0], ast.Tuple) \
                and isinstance(st.value, ast.Tuple) and len(st.value.elts) == len(st.targets[0].elts) \
                and all((isinstance(t, (ast.Name, ast.Subscript, ast.Attribute)) and _base_name(t)) or
                        (isinstance(t, ast.Tuple) and all(isinstance(x, ast.Name) for x in t.elts)) for t in st.targets[0].elts) \
                and all(_is_pure_expr(t) for t in st.targets[0].elts if not isinstance(t, ast.Tuple)) \
                and not any(isinstance(t, ast.Tuple) for t in st.targets[0].elts):
            tg = [_base_name(t) for t in st.targets[0].elts]
            # independent unless a later value (or a later target's index) reads an earlier target
            ok = True
            for i, v in enumerate(st.value.elts):
                reads = _names_loaded(v) | (_names_loaded(st.targets[0].elts[i]) - ({tg[i]} if isinstance(st.targets[0].elts[i], ast.Name) else set()))
                if reads & set(tg[:i]):
                    ok = False
            if ok and len(set(tg)) == len(tg):
                for t, v in zip(st.targets[0].elts, st.value.elts):
                    out.append(_fix(ast.Assign(targets=[t], value=v), st))
            else:
                out.append(st)
        else:
            out.append(st)
    return out


# ----------------------------------------------------------------------------------------------
# N15: `if a < b: return a else: return b`  ->  `return min(a, b)`   (likewise for an assignment, and max)
# ----------------------------------------------------------------------------------------------

def _select_minmax(block: List[ast.stmt]) -> List[ast.stmt]:
    out: List[ast.stmt] = []
    for st in block:
        if isinstance(st, (ast.FunctionDef, ast.ClassDef)):
            out.append(st)
            continue
        for b in _blocks_of(st):
            b[:] = _select_minmax(b)
        new = None
        if isinstance(st, ast.If) and len(st.body) == 1 and len(st.orelse) == 1 and isinstance(st.test, ast.Compare) \
                and len(st.test.ops) == 1 and isinstance(st.test.ops[0], (ast.Lt, ast.LtE, ast.Gt, ast.GtE)):
            a, b = st.body[0], st.orelse[0]
            va = vb = None
            if isinstance(a, ast.Return) and isinstance(b, ast.Return) and a.value is not None and b.value is not None:
                va, vb = a.value, b.value
                mk = lambda e: ast.Return(value=e)
            elif isinstance(a, ast.Assign) and isinstance(b, ast.Assign) and len(a.targets) == 1 and len(b.targets) == 1 \
                    and isinstance(a.targets[0], ast.Name) and ast.dump(a.targets[0]) == ast.dump(b.targets[0]):
                va, vb = a.value, b.value
                tg = a.targets[0]
                mk = lambda e: ast.Assign(targets=[tg], value=e)
            if va is not None and _is_pure_expr(va) and _is_pure_expr(vb):
                l, r = ast.dump(st.test.left), ast.dump(st.test.comparators[0])
                less = isinstance(st.test.ops[0], (ast.Lt, ast.LtE))
                da, db = ast.dump(va), ast.dump(vb)
                fn_ = None
                if (da, db) == (l, r):
                    fn_ = 'min' if less else 'max'       # if l < r: l else: r
                elif (da, db) == (r, l):
                    fn_ = 'max' if less else 'min'       # if l < r: r else: l
                if fn_:
                    args = sorted([va, vb], key=lambda e: ast.unparse(e))
                    new = _fix(mk(ast.Call(func=ast.Name(id=fn_, ctx=ast.Load()), args=args, keywords=[])), st)
        if new is None and isinstance(st, ast.If) and len(st.body) == 1 and not st.orelse and isinstance(st.test, ast.Compare) \
                and len(st.test.ops) == 1 and isinstance(st.test.ops[0], (ast.Lt, ast.LtE, ast.Gt, ast.GtE)) \
                and isinstance(st.body[0], ast.Assign) and len(st.body[0].targets) == 1 \
                and isinstance(st.body[0].targets[0], ast.Name):
            # a clamp: `if x < c: x = c` is `x = max(c, x)` (`>`: min); the test may be written either way round
            x, c_ = st.body[0].targets[0], st.body[0].value
            l, r = st.test.left, st.test.comparators[0]
            less = isinstance(st.test.ops[0], (ast.Lt, ast.LtE))
            fn_ = None
            if isinstance(l, ast.Name) and l.id == x.id and ast.dump(r) == ast.dump(c_):
                fn_ = 'max' if less else 'min'
            elif isinstance(r, ast.Name) and r.id == x.id and ast.dump(l) == ast.dump(c_):
                fn_ = 'min' if less else 'max'
            if fn_ and _is_pure_expr(c_) and x.id not in _names_loaded(c_):
                args = sorted([ast.Name(id=x.id, ctx=ast.Load()), c_], key=lambda e: ast.unparse(e))
                new = _fix(ast.Assign(targets=[ast.Name(id=x.id, ctx=ast.Store())],
                                      value=ast.Call(func=ast.Name(id=fn_, ctx=ast.Load()), args=args, keywords=[])), st)
        out.append(new if new is not None else st)
    return out


def _scalarize_small_arrays(fn: ast.FunctionDef) -> bool:
    """N27: a local array of a small literal size (`a = np.empty(2)` / `np.zeros(2)`) that is only ever accessed through
    literal indices - never passed on, returned, sliced or aliased - is a set of scalars: `a[i]` becomes `a__i`, a store
    `a[i] = E` becomes `a__i = np.float64(E)` (what reading the cell back yields)."""
    changed = False
    cands: Dict[str, Tuple[ast.Assign, int, str, str]] = {}
    stores: Dict[str, int] = {}
    for n in ast.walk(fn):
        if isinstance(n, ast.Name) and isinstance(n.ctx, ast.Store):
            stores[n.id] = stores.get(n.id, 0) + 1
    # `a = np.array([e0, e1][, dtype=float])` is `a = np.empty(2); a[0] = e0; a[1] = e1` (the elements are evaluated in order, each
    # is converted to float64 when it is stored)
    for k_, st in enumerate(list(fn.body)):
        if isinstance(st, ast.Assign) and len(st.targets) == 1 and isinstance(st.targets[0], ast.Name) \
                and isinstance(st.value, ast.Call) and ast.unparse(st.value.func) in ('np.array', 'numpy.array') \
                and len(st.value.args) == 1 and isinstance(st.value.args[0], (ast.List, ast.Tuple)) \
                and 1 <= len(st.value.args[0].elts) <= 4 and all(_is_pure_expr(e) for e in st.value.args[0].elts) \
                and all(k.arg == 'dtype' and ast.unparse(k.value) in ('float', 'np.float64', 'np.double') for k in st.value.keywords) \
                and stores.get(st.targets[0].id) == 1 and st.targets[0].id not in _fn_params(fn) \
                and not any(isinstance(e, (ast.List, ast.Tuple, ast.Starred)) for e in st.value.args[0].elts):
            a_ = st.targets[0].id
            npn = st.value.func.value.id if isinstance(st.value.func, ast.Attribute) and isinstance(st.value.func.value, ast.Name) else 'np'
            elts = st.value.args[0].elts
            new_stmts = [_fix(ast.Assign(targets=[ast.Name(id=a_, ctx=ast.Store())],
                                         value=ast.Call(func=ast.Attribute(value=ast.Name(id=npn, ctx=ast.Load()), attr='empty', ctx=ast.Load()),
                                                        args=[ast.Constant(value=len(elts))], keywords=[])), st)]
            for i_, e_ in enumerate(elts):
                new_stmts.append(_fix(ast.Assign(targets=[ast.Subscript(value=ast.Name(id=a_, ctx=ast.Load()), slice=ast.Constant(value=i_),
                                                                        ctx=ast.Store())], value=e_), st))
            idx = fn.body.index(st)
            fn.body[idx:idx + 1] = new_stmts
            changed = True
    for st in fn.body:
        if isinstance(st, ast.Assign) and len(st.targets) == 1 and isinstance(st.targets[0], ast.Name) \
                and isinstance(st.value, ast.Call) and isinstance(st.value.func, ast.Attribute) \
                and isinstance(st.value.func.value, ast.Name) and st.value.func.attr in ('empty', 'zeros') \
                and len(st.value.args) == 1 and not st.value.keywords and isinstance(st.value.args[0], ast.Constant) \
                and isinstance(st.value.args[0].value, int) and 1 <= st.value.args[0].value <= 4 \
                and stores.get(st.targets[0].id) == 1 and st.targets[0].id not in _fn_params(fn):
            cands[st.targets[0].id] = (st, st.value.args[0].value, st.value.func.attr, st.value.func.value.id)
    if not cands:
        return False
    # `lo, hi = a` unpacks the cells in their order: `lo = a[0]; hi = a[1]`
    class U(ast.NodeTransformer):
        def visit_FunctionDef(self, node):
            if node is fn:
                self.generic_visit(node)
            return node

        def visit_Assign(self, node):
            if len(node.targets) == 1 and isinstance(node.targets[0], (ast.Tuple, ast.List)) and isinstance(node.value, ast.Name) \
                    and node.value.id in cands and len(node.targets[0].elts) == cands[node.value.id][1] \
                    and all(isinstance(e, ast.Name) for e in node.targets[0].elts):
                return [_fix(ast.Assign(targets=[ast.Name(id=e.id, ctx=ast.Store())],
                                        value=ast.Subscript(value=ast.Name(id=node.value.id, ctx=ast.Load()),
                                                            slice=ast.Constant(value=i), ctx=ast.Load())), node)
                        for i, e in enumerate(node.targets[0].elts)]
            return node
    U().visit(fn)
    ast.fix_missing_locations(fn)
    # every other occurrence is `a[<literal index in range>]`
    parents: Dict[int, ast.AST] = {}
    for n in ast.walk(fn):
        for c in ast.iter_child_nodes(n):
            parents[id(c)] = n
    for n in ast.walk(fn):
        if isinstance(n, ast.Name) and n.id in cands and n is not cands[n.id][0].targets[0]:
            par = parents.get(id(n))
            okk = isinstance(par, ast.Subscript) and par.value is n and isinstance(par.slice, ast.Constant) \
                and isinstance(par.slice.value, int) and not isinstance(par.slice.value, bool) \
                and 0 <= par.slice.value < cands[n.id][1] and not isinstance(par.ctx, ast.Del)
            # nested scopes see the array itself
            q = par
            while okk and q is not None and q is not fn:
                if isinstance(q, (ast.FunctionDef, ast.Lambda, ast.ClassDef)):
                    okk = False
                q = parents.get(id(q))
            if not okk:
                cands.pop(n.id, None)
    for a, (alloc, size, kind, npname) in cands.items():
        cell = lambda i: f"{a}__{'abcd'[i]}"      # (no digit behind the array's own name: X1 / X2 pairs stay recognisable)
        if any(isinstance(n, ast.Name) and n.id.startswith(a + '__') for n in ast.walk(fn)):
            continue

        class T(ast.NodeTransformer):
            def visit_FunctionDef(self, node):
                if node is fn:
                    self.generic_visit(node)
                return node

            def visit_Assign(self, node):
                self.generic_visit(node)
                if len(node.targets) == 1 and isinstance(node.targets[0], ast.Name) and node.targets[0].id.startswith(a + '__') \
                        and getattr(node.targets[0], '_cell', False):
                    node.value = ast.Call(func=ast.Attribute(value=ast.Name(id=npname, ctx=ast.Load()), attr='float64', ctx=ast.Load()),
                                          args=[node.value], keywords=[])
                return node

            def visit_Subscript(self, node):
                if isinstance(node.value, ast.Name) and node.value.id == a:
                    new = ast.copy_location(ast.Name(id=cell(node.slice.value), ctx=node.ctx), node)
                    new._cell = True
                    return new
                self.generic_visit(node)
                return node
        k = fn.body.index(alloc)
        T().visit(fn)
        init = []
        if kind == 'zeros':
            init = [_fix(ast.Assign(targets=[ast.Name(id=cell(i), ctx=ast.Store())], value=ast.Constant(value=0.0)), alloc)
                    for i in range(size)]
        fn.body[k:k + 1] = init
        ast.fix_missing_locations(fn)
        changed = True
    if changed:
        _invalidate()
    return changed


def _drop_dead_defs(fn: ast.FunctionDef) -> bool:
    """A plain top-level definition `v = <pure expression>` whose value no statement can read (every path re-defines v
    first, or never reads it) is dropped."""
    hidden: Set[str] = set()
    for n in ast.walk(fn):
        if isinstance(n, (ast.Global, ast.Nonlocal)):
            hidden |= set(n.names)
        if isinstance(n, (ast.FunctionDef, ast.Lambda, ast.ClassDef)) and n is not fn:
            hidden |= {m.id for m in ast.walk(n) if isinstance(m, ast.Name)}
        if isinstance(n, ast.Call) and isinstance(n.func, ast.Name) and n.func.id in ('locals', 'vars', 'eval', 'exec'):
            return False
    changed = False
    k = 0
    while k < len(fn.body):
        st = fn.body[k]
        if isinstance(st, ast.Assign) and len(st.targets) == 1 and isinstance(st.targets[0], ast.Name) \
                and st.targets[0].id not in hidden and _is_pure_expr(st.value) \
                and isinstance(st.value, (ast.Constant, ast.Name)):
            e, _d = _exposed(fn.body[k + 1:], st.targets[0].id)
            if not e and len(fn.body) > 1:
                del fn.body[k]
                changed = True
                _invalidate()
                continue
        k += 1
    return changed


def _version_params(fn: ast.FunctionDef) -> bool:
    """A parameter that is re-bound by a plain assignment at the top level of the body (which every later statement is
    dominated by) continues under a name of its own: `p = E(p)` becomes `p__v1 = E(p)` and the later occurrences of p
    are occurrences of p__v1.  The parameter itself then keeps its incoming value."""
    params = _fn_params(fn)
    hidden: Set[str] = set()
    for n in ast.walk(fn):
        if isinstance(n, (ast.Global, ast.Nonlocal)):
            hidden |= set(n.names)
        if isinstance(n, (ast.FunctionDef, ast.Lambda, ast.GeneratorExp, ast.ListComp, ast.SetComp, ast.DictComp, ast.ClassDef)) \
                and n is not fn:
            hidden |= {m.id for m in ast.walk(n) if isinstance(m, ast.Name)}
        if isinstance(n, ast.Call) and isinstance(n.func, ast.Name) and n.func.id in ('locals', 'vars', 'eval', 'exec'):
            return False
    changed = False
    for k, st in enumerate(fn.body):
        if isinstance(st, ast.Assign) and len(st.targets) == 1 and isinstance(st.targets[0], ast.Name) \
                and st.targets[0].id in params and st.targets[0].id not in hidden and '__v' not in st.targets[0].id:
            p = st.targets[0].id
            if p not in _names_loaded(st.value):
                continue            # (a fresh value under the parameter's name: nothing to separate)
            if not (isinstance(st.value, ast.Call) and isinstance(st.value.func, ast.Name) and st.value.func.id in ('max', 'min')):
                continue            # (only a clamped number: objects keep their name for the rules that follow them)
            new = f"{p}__v1"
            if any(isinstance(n, ast.Name) and n.id == new for n in ast.walk(fn)):
                continue
            st.targets[0].id = new
            for later in fn.body[k + 1:]:
                for n in ast.walk(later):
                    if isinstance(n, ast.Name) and n.id == p:
                        n.id = new
            changed = True
    if changed:
        _invalidate()
    return changed


class _SortMinMaxArgs(ast.NodeTransformer):
    """two-argument min/max of side-effect free operands: canonical argument order (ties return equal values)"""
    def visit_Call(self, node):
        self.generic_visit(node)
        if isinstance(node.func, ast.Name) and node.func.id in ('min', 'max', 'fmin', 'fmax') and len(node.args) == 2 \
                and not node.keywords and all(_is_pure_expr(a) for a in node.args):
            node.args = sorted(node.args, key=lambda e: ast.unparse(e))
        return node

    def visit_FunctionDef(self, node):
        return node


# ----------------------------------------------------------------------------------------------
# N3: branch orientation
# ----------------------------------------------------------------------------------------------

_NEG = {ast.NotEq: ast.Eq, ast.IsNot: ast.Is, ast.NotIn: ast.In}


def _length_typed(e: ast.expr) -> bool:
    """A sum of len(...) calls and non-negative integer literals: a non-negative integer."""
    if isinstance(e, ast.Call) and isinstance(e.func, ast.Name) and e.func.id == 'len' and len(e.args) == 1:
        return True
    if isinstance(e, ast.Constant) and isinstance(e.value, int) and not isinstance(e.value, bool) and e.value >= 0:
        return True
    if isinstance(e, ast.BinOp) and isinstance(e.op, ast.Add):
        return _length_typed(e.left) and _length_typed(e.right)
    return False


def _int_const(e, k) -> bool:
    return isinstance(e, ast.Constant) and isinstance(e.value, int) and not isinstance(e.value, bool) and e.value == k


def _length_test(test: ast.expr):
    """(positive, L) when `test` says that the non-negative integer L is positive (positive=True) or zero."""
    if not (isinstance(test, ast.Compare) and len(test.ops) == 1):
        return None
    a, op, b = test.left, test.ops[0], test.comparators[0]
    if _length_typed(a) and not isinstance(a, ast.Constant):
        if (isinstance(op, ast.Eq) and _int_const(b, 0)) or (isinstance(op, ast.Lt) and _int_const(b, 1)) \
                or (isinstance(op, ast.LtE) and _int_const(b, 0)):
            return False, a
        if (isinstance(op, ast.NotEq) and _int_const(b, 0)) or (isinstance(op, ast.Gt) and _int_const(b, 0)) \
                or (isinstance(op, ast.GtE) and _int_const(b, 1)):
            return True, a
    if _length_typed(b) and not isinstance(b, ast.Constant):
        if (isinstance(op, ast.Eq) and _int_const(a, 0)) or (isinstance(op, ast.Gt) and _int_const(a, 1)) \
                or (isinstance(op, ast.GtE) and _int_const(a, 0)):
            return False, b
        if (isinstance(op, ast.NotEq) and _int_const(a, 0)) or (isinstance(op, ast.Lt) and _int_const(a, 0)) \
                or (isinstance(op, ast.LtE) and _int_const(a, 1)):
            return True, b
    return None


class _LenTests(ast.NodeTransformer):
    """`len(x) != 0`, `len(x) >= 1`, ... -> `0 < len(x)`   (the zero tests are handled as its negation)"""
    def visit_Compare(self, node):
        self.generic_visit(node)
        lt = _length_test(node)
        if lt and lt[0]:
            return _fix(ast.Compare(left=ast.Constant(value=0), ops=[ast.Lt()], comparators=[lt[1]]), node)
        if lt and not lt[0] and not (isinstance(node.ops[0], ast.Eq) and _int_const(node.comparators[0], 0)):
            return _fix(ast.Compare(left=lt[1], ops=[ast.Eq()], comparators=[ast.Constant(value=0)]), node)
        return node

    def visit_FunctionDef(self, node):
        return node


def _negated(test: ast.expr) -> Optional[ast.expr]:
    """If `test` is syntactically a negation return the positive test, else None."""
    lt = _length_test(test)
    if lt and not lt[0]:
        return _fix(ast.Compare(left=ast.Constant(value=0), ops=[ast.Lt()], comparators=[lt[1]]), test)
    if isinstance(test, ast.UnaryOp) and isinstance(test.op, ast.Not):
        return test.operand
    if isinstance(test, ast.Compare) and len(test.ops) == 1 and type(test.ops[0]) in _NEG:
        return _fix(ast.Compare(left=test.left, ops=[_NEG[type(test.ops[0])]()], comparators=test.comparators), test)
    return None


_POS = {ast.Eq: ast.NotEq, ast.Is: ast.IsNot, ast.In: ast.NotIn}


def _negate(test: ast.expr) -> ast.expr:
    if isinstance(test, ast.Compare) and len(test.ops) == 1 and type(test.ops[0]) in _POS:
        return _fix(ast.Compare(left=test.left, ops=[_POS[type(test.ops[0])]()], comparators=test.comparators), test)
    return _fix(ast.UnaryOp(op=ast.Not(), operand=test), test)


def _orient(block: List[ast.stmt], in_loop: bool, top: bool, loop_body: bool = False) -> List[ast.stmt]:
    """Apply N3 to a statement list.  `top`: the block is the function body (falls through = returns)."""
    out: List[ast.stmt] = []
    i = 0
    block = list(block)
    while i < len(block):
        st = block[i]
        rest = block[i + 1:]
        if isinstance(st, (ast.For, ast.While)):
            st.body[:] = _orient(st.body, True, False, True)
            st.orelse[:] = _orient(st.orelse, in_loop, False)
            out.append(st)
        elif isinstance(st, ast.If):
            pos = _negated(st.test)
            if pos is not None and st.orelse:
                st = _fix(ast.If(test=pos, body=st.orelse, orelse=st.body), st)
                pos = None
            if pos is not None and not st.orelse:
                # `if not c: T` REST  ->  `if c: REST` T     (T terminates; REST terminates or ends the function)
                if _ends_function(st.body) and rest and _ends_function(rest) and not in_loop_leak(st.body):
                    new = _fix(ast.If(test=pos, body=rest, orelse=st.body), st)
                    block = block[:i] + [new]
                    continue
            # `if c: continue` REST -> `if <not c>: REST`   (REST is the remainder of the loop body)
            if in_loop and loop_body and not st.orelse and len(st.body) == 1 and isinstance(st.body[0], ast.Continue) and rest:
                new = _fix(ast.If(test=pos if pos is not None else _negate(st.test), body=rest, orelse=[]), st)
                block = block[:i] + [new]
                continue
            # `if c: A; continue` REST -> `if c: A else: REST`
            if in_loop and loop_body and not st.orelse and len(st.body) > 1 and isinstance(st.body[-1], ast.Continue) and rest \
                    and not any(isinstance(n, (ast.Continue, ast.Break)) for b_ in st.body[:-1] for n in ast.walk(b_)):
                new = _fix(ast.If(test=st.test, body=st.body[:-1], orelse=rest), st)
                block = block[:i] + [new]
                continue
            # an early `return` followed by code that ends the function is a two-way branch: spell it as one
            if not st.orelse and rest and _ends_function(st.body) and _has_return(st.body) \
                    and _ends_function(rest) and not in_loop_leak(st.body):
                new = _fix(ast.If(test=st.test, body=st.body, orelse=rest), st)
                block = block[:i] + [new]
                continue
            st.body[:] = _orient(st.body, in_loop, False)
            st.orelse[:] = _orient(st.orelse, in_loop, False)
            if st.orelse and terminates(st.body) and not terminates(st.orelse):
                # the else branch of an early exit falls through: it is simply what follows
                tail = st.orelse
                st.orelse = []
                out.append(st)
                block = block[:i + 1] + tail + rest
                i += 1
                continue
            if st.orelse and not st.body:
                st.body = [_fix(ast.Pass(), st)]
            out.append(st)
        elif isinstance(st, ast.Try):
            st.body[:] = _orient(st.body, in_loop, False)
            for h in st.handlers:
                h.body[:] = _orient(h.body, in_loop, False)
            st.orelse[:] = _orient(st.orelse, in_loop, False)
            st.finalbody[:] = _orient(st.finalbody, in_loop, False)
            out.append(st)
        elif isinstance(st, ast.With):
            st.body[:] = _orient(st.body, in_loop, False)
            out.append(st)
        else:
            out.append(st)
        i += 1
    return out


def _has_return(body: List[ast.stmt]) -> bool:
    return any(isinstance(n, ast.Return) for s in body for n in ast.walk(s))


def in_loop_leak(body: List[ast.stmt]) -> bool:
    """A branch that ends in continue/break cannot be moved behind REST."""
    return any(isinstance(n, (ast.Continue, ast.Break)) for s in body for n in ast.walk(s))


# ----------------------------------------------------------------------------------------------
# N4: comparison direction ; N5: accumulation
# ----------------------------------------------------------------------------------------------

def _total_test(e: ast.AST) -> bool:
    """an expression that always evaluates (no subscript, attribute, division, call other than len, no conditional part)"""
    for n in ast.walk(e):
        if isinstance(n, ast.Call):
            if not (isinstance(n.func, ast.Name) and n.func.id == 'len' and len(n.args) == 1 and isinstance(n.args[0], ast.Name)):
                return False
        elif isinstance(n, ast.BinOp):
            if not isinstance(n.op, (ast.Add, ast.Sub, ast.Mult)):
                return False
        elif not isinstance(n, (ast.Compare, ast.Name, ast.Constant, ast.UnaryOp, ast.USub, ast.UAdd, ast.Not, ast.cmpop, ast.operator,
                                ast.expr_context, ast.BoolOp, ast.And, ast.Or)):
            return False
    return True


def _is_count_expr(e: ast.AST, int_names=frozenset()) -> bool:
    """an integer by construction: lengths, integer literals, sums / differences of those"""
    if isinstance(e, ast.Constant):
        return isinstance(e.value, int) and not isinstance(e.value, bool)
    if isinstance(e, ast.Call) and isinstance(e.func, ast.Name) and e.func.id == 'len' and len(e.args) == 1 and not e.keywords:
        return True
    if isinstance(e, ast.Name):
        return e.id in int_names
    if isinstance(e, ast.BinOp) and isinstance(e.op, (ast.Add, ast.Sub)):
        return _is_count_expr(e.left, int_names) and _is_count_expr(e.right, int_names)
    if isinstance(e, ast.UnaryOp) and isinstance(e.op, ast.USub):
        return _is_count_expr(e.operand, int_names)
    return False


class _CmpDir(ast.NodeTransformer):
    int_names = frozenset()

    def visit_UnaryOp(self, node: ast.UnaryOp):
        self.generic_visit(node)
        if isinstance(node.op, ast.UAdd) and _is_num_literal(node.operand):
            return node.operand
        if isinstance(node.op, ast.Not) and isinstance(node.operand, ast.Compare) and len(node.operand.ops) == 1:
            c = node.operand
            l, r, op = c.left, c.comparators[0], c.ops[0]
            if isinstance(op, (ast.Eq, ast.NotEq)):
                # `not a == b` is `a != b` (also for nan)
                return _fix(ast.Compare(left=l, ops=[ast.NotEq() if isinstance(op, ast.Eq) else ast.Eq()], comparators=[r]), node)
            if isinstance(op, (ast.Lt, ast.LtE)):
                # a cursor against a count (a length, give or take a literal): integers are totally ordered, `not a < b` is `b <= a`
                def cursor(e):
                    return isinstance(e, ast.Name) or (isinstance(e, ast.BinOp) and isinstance(e.op, (ast.Add, ast.Sub))
                                                       and isinstance(e.left, ast.Name) and _is_count_expr(e.right))
                has_len = any(isinstance(x, ast.Call) and isinstance(x.func, ast.Name) and x.func.id == 'len' for x in ast.walk(c)) \
                    or any(isinstance(x, ast.Name) and x.id in self.int_names for x in ast.walk(c))
                if has_len and ((_is_count_expr(l, self.int_names) and cursor(r)) or (_is_count_expr(r, self.int_names) and cursor(l))
                                or (_is_count_expr(l, self.int_names) and _is_count_expr(r, self.int_names))):
                    nop = ast.LtE() if isinstance(op, ast.Lt) else ast.Lt()
                    return _fix(ast.Compare(left=r, ops=[nop], comparators=[l]), node)
        return node

    def visit_BinOp(self, node: ast.BinOp):
        self.generic_visit(node)
        if isinstance(node.op, ast.Mult) and _is_num_literal(node.right) and not _is_num_literal(node.left) \
                and isinstance(node.right, ast.Constant) and isinstance(node.right.value, float):
            node.left, node.right = node.right, node.left
        return node

    def visit_Call(self, node: ast.Call):
        self.generic_visit(node)
        if any(isinstance(a_, ast.Starred) for a_ in node.args):
            # `f(*((a, b) + (c,)))` / `f(*[a, b])` with the tuples written out is `f(a, b, c)`
            def items(e_):
                if isinstance(e_, (ast.Tuple, ast.List)) and not any(isinstance(x_, ast.Starred) for x_ in e_.elts):
                    return list(e_.elts)
                if isinstance(e_, ast.BinOp) and isinstance(e_.op, ast.Add):
                    l_, r_ = items(e_.left), items(e_.right)
                    if l_ is not None and r_ is not None and type(e_.left) is type(e_.right) or \
                            (l_ is not None and r_ is not None and isinstance(e_.left, (ast.Tuple, ast.BinOp)) and isinstance(e_.right, (ast.Tuple, ast.BinOp))):
                        return l_ + r_
                return None
            new_args = []
            for a_ in node.args:
                it_ = items(a_.value) if isinstance(a_, ast.Starred) else None
                new_args.extend(it_ if it_ is not None else [a_])
            node.args = new_args
        if isinstance(node.func, ast.Name) and node.func.id == 'reversed' and len(node.args) == 1 and not node.keywords \
                and isinstance(node.args[0], ast.Call) and isinstance(node.args[0].func, ast.Name) \
                and node.args[0].func.id == 'range' and not node.args[0].keywords and len(node.args[0].args) in (1, 2) \
                and not any(isinstance(a_, ast.Starred) for a_ in node.args[0].args):
            # `reversed(range(a, b))` counts b-1, b-2, ..., a: `range(b - 1, a - 1, -1)`
            r_ = node.args[0].args
            lo_, hi_ = (ast.Constant(value=0), r_[0]) if len(r_) == 1 else (r_[0], r_[1])

            def minus_one(e_):
                if isinstance(e_, ast.Constant) and type(e_.value) is int:
                    v_ = e_.value - 1
                    return ast.Constant(value=v_) if v_ >= 0 else ast.UnaryOp(op=ast.USub(), operand=ast.Constant(value=-v_))
                return ast.BinOp(left=e_, op=ast.Sub(), right=ast.Constant(value=1))
            new_ = ast.Call(func=ast.Name(id='range', ctx=ast.Load()),
                            args=[minus_one(hi_), minus_one(lo_), ast.UnaryOp(op=ast.USub(), operand=ast.Constant(value=1))], keywords=[])
            return _fix(new_, node)
        if isinstance(node.func, ast.Name) and node.func.id in ('max', 'min', 'sum', 'sorted', 'list', 'tuple') \
                and len(node.args) >= 1 and isinstance(node.args[0], ast.GeneratorExp):
            # a generator that is consumed at once by an eager reducer is the list of its elements
            g_ = node.args[0]
            node.args[0] = ast.copy_location(ast.ListComp(elt=g_.elt, generators=g_.generators), g_)
        if isinstance(node.func, ast.Name) and node.func.id in ('max', 'min') and len(node.args) == 1 \
                and not node.keywords and isinstance(node.args[0], (ast.List, ast.Tuple)) \
                and len(node.args[0].elts) >= 2 and not any(isinstance(e, ast.Starred) for e in node.args[0].elts):
            node.args = list(node.args[0].elts)
        return node

    def visit_Compare(self, node: ast.Compare):
        self.generic_visit(node)
        if len(node.ops) == 1 and isinstance(node.ops[0], (ast.Eq, ast.NotEq)):
            l, r = node.left, node.comparators[0]
            if isinstance(l, ast.Constant) and not isinstance(r, ast.Constant):
                node.left, node.comparators = r, [l]
            elif isinstance(l, ast.Name) and isinstance(r, ast.Name) and r.id < l.id:
                node.left, node.comparators = r, [l]
            return node
        if len(node.ops) == 1 and isinstance(node.ops[0], (ast.Gt, ast.GtE)):
            op = ast.Lt() if isinstance(node.ops[0], ast.Gt) else ast.LtE()
            return _fix(ast.Compare(left=node.comparators[0], ops=[op], comparators=[node.left]), node)
        if len(node.ops) > 1 and all(_is_pure_expr(x) for x in [node.left] + node.comparators):
            # `a < b < c` is `a < b and b < c` (the middle operands are side-effect free: evaluating them twice is the same)
            parts = []
            left = node.left
            for op, right in zip(node.ops, node.comparators):
                parts.append(self.visit_Compare(_fix(ast.Compare(left=copy.deepcopy(left), ops=[op], comparators=[copy.deepcopy(right)]), node)))
                left = right
            return self.visit_BoolOp(_fix(ast.BoolOp(op=ast.And(), values=parts), node), visited=True)
        return node

    def visit_BoolOp(self, node: ast.BoolOp, visited: bool = False):
        if not visited:
            self.generic_visit(node)
        # operands that cannot raise and have no effect (comparisons of names, constants, lengths and their sums) commute
        # under and / or: canonical order.  An operand with a subscript, a division or a call stays where it is - it may be
        # guarded by what stands before it.
        flat = []
        for v in node.values:
            if isinstance(v, ast.BoolOp) and type(v.op) is type(node.op):
                flat.extend(v.values)
            else:
                flat.append(v)
        node.values = flat
        if all(_total_test(v) for v in node.values):
            node.values = sorted(node.values, key=ast.unparse)
        return node


class _SliceObjects(ast.NodeTransformer):
    """`x[slice(a, b)]` is `x[a:b]`"""
    def visit_Subscript(self, node: ast.Subscript):
        self.generic_visit(node)
        sl = node.slice
        if isinstance(sl, ast.Call) and isinstance(sl.func, ast.Name) and sl.func.id == 'slice' and not sl.keywords \
                and 1 <= len(sl.args) <= 3:
            a = list(sl.args)
            none = lambda e: None if (isinstance(e, ast.Constant) and e.value is None) else e
            if len(a) == 1:
                lo, hi, st = None, none(a[0]), None
            else:
                lo, hi, st = none(a[0]), none(a[1]), none(a[2]) if len(a) == 3 else None
            node.slice = _fix(ast.Slice(lower=lo, upper=hi, step=st), sl)
        return node

    def visit_FunctionDef(self, node):
        return node


class _NegIndex(ast.NodeTransformer):
    """N9: `x[-k]` -> `x[len(x) - k]` for a plain name x and a literal k (element access, not slices)."""
    def visit_Subscript(self, node: ast.Subscript):
        self.generic_visit(node)
        sl = node.slice
        if isinstance(node.value, ast.Name) and isinstance(sl, ast.UnaryOp) and isinstance(sl.op, ast.USub) \
                and isinstance(sl.operand, ast.Constant) and isinstance(sl.operand.value, int) \
                and not isinstance(sl.operand.value, bool) and sl.operand.value > 0:
            ln = ast.Call(func=ast.Name(id='len', ctx=ast.Load()), args=[ast.Name(id=node.value.id, ctx=ast.Load())],
                          keywords=[])
            new = ast.Subscript(value=node.value, slice=ast.BinOp(left=ln, op=ast.Sub(), right=sl.operand), ctx=node.ctx)
            return _fix(new, node)
        return node


def _is_num_literal(e: ast.AST) -> bool:
    if isinstance(e, ast.Constant) and isinstance(e.value, (int, float)) and not isinstance(e.value, bool):
        return True
    if isinstance(e, ast.UnaryOp) and isinstance(e.op, (ast.USub, ast.UAdd)):
        return _is_num_literal(e.operand)
    return False


_REDUCTIONS = {'sum', 'mean', 'dot', 'sqrt', 'abs', 'max', 'min', 'len', 'float', 'int', 'integral', 'avrg', 'trapz'}


def _fresh_value(e: ast.AST) -> bool:
    """The value is a new object nobody else refers to: a literal, the result of arithmetic, or of a reduction."""
    if _is_num_literal(e):
        return True
    if isinstance(e, ast.BinOp):
        return True
    if isinstance(e, ast.Call):
        f = e.func
        nm = f.id if isinstance(f, ast.Name) else f.attr if isinstance(f, ast.Attribute) else None
        return nm in _REDUCTIONS
    return False


def _self_update(st: ast.stmt) -> Optional[Tuple[str, ast.operator, ast.expr]]:
    if isinstance(st, ast.Assign) and len(st.targets) == 1 and isinstance(st.targets[0], ast.Name) \
            and isinstance(st.value, ast.BinOp) and isinstance(st.value.left, ast.Name) \
            and st.value.left.id == st.targets[0].id \
            and isinstance(st.value.op, (ast.Add, ast.Sub, ast.Mult, ast.Div)):
        return st.targets[0].id, st.value.op, st.value.right
    return None


def _accumulations(fn: ast.FunctionDef):
    # scalar locals: every plain definition is a numeric literal or an update of itself
    defs: Dict[str, List[ast.AST]] = {}
    params = {a.arg for a in fn.args.args + fn.args.kwonlyargs + fn.args.posonlyargs}
    if fn.args.vararg:
        params.add(fn.args.vararg.arg)
    if fn.args.kwarg:
        params.add(fn.args.kwarg.arg)
    bad: Set[str] = set(params)
    for n in ast.walk(fn):
        if isinstance(n, ast.Assign):
            for t in n.targets:
                if isinstance(t, ast.Name):
                    defs.setdefault(t.id, []).append(n)
                else:
                    s: Set[str] = set()
                    _target_names(t, s)
                    if isinstance(t, (ast.Tuple, ast.List)):
                        bad |= s
        elif isinstance(n, ast.For):
            s = set()
            _target_names(n.target, s)
            bad |= s
        elif isinstance(n, (ast.With, ast.ExceptHandler, ast.NamedExpr, ast.AnnAssign)):
            bad |= mutated_names(n, calls=False)
    # locals whose value is handed on under another name (then in-place update and re-binding differ)
    aliased: Set[str] = set()
    for n in ast.walk(fn):
        if isinstance(n, ast.Assign) and isinstance(n.value, ast.Name):
            aliased.add(n.value.id)
        elif isinstance(n, ast.Assign) and isinstance(n.value, (ast.Tuple, ast.List)):
            aliased |= {e.id for e in n.value.elts if isinstance(e, ast.Name)}
        elif isinstance(n, (ast.List, ast.Dict, ast.Set)) and not isinstance(getattr(n, 'ctx', None), ast.Store):
            aliased |= {e.id for e in ast.iter_child_nodes(n) if isinstance(e, ast.Name)}
        elif isinstance(n, ast.Call):
            k: Set[str] = set()
            _call_kills(n, k)
            aliased |= k
            if isinstance(n.func, ast.Attribute) and n.func.attr in ('append', 'extend', 'insert'):
                aliased |= {a.id for a in n.args if isinstance(a, ast.Name)}
    scalars = set()
    # parameters used as an array index or compared with a length are integers
    for n in ast.walk(fn):
        if isinstance(n, ast.Subscript):
            sl = n.slice
            for m in ([sl] if isinstance(sl, ast.Name) else
                      [sl.left, sl.right] if isinstance(sl, ast.BinOp) else []):
                if isinstance(m, ast.Name) and m.id in params:
                    scalars.add(m.id)
        elif isinstance(n, ast.Compare) and len(n.ops) == 1:
            for x, y in ((n.left, n.comparators[0]), (n.comparators[0], n.left)):
                if isinstance(x, ast.Name) and x.id in params and _length_typed(y) and not isinstance(y, ast.Constant):
                    scalars.add(x.id)
    for v, ds in defs.items():
        if v in bad:
            continue
        if all(_fresh_value(d.value) or (_self_update(d) and _self_update(d)[0] == v) for d in ds) \
                and any(_fresh_value(d.value) for d in ds) and v not in aliased:
            scalars.add(v)

    class T(ast.NodeTransformer):
        def visit_Assign(self, node):
            u = _self_update(node)
            if u and u[0] in scalars:
                return _fix(ast.AugAssign(target=ast.Name(id=u[0], ctx=ast.Store()), op=u[1], value=u[2]), node)
            return node

        def visit_FunctionDef(self, node):
            if node is fn:
                self.generic_visit(node)
            return node
    T().visit(fn)


# ----------------------------------------------------------------------------------------------
# N6: temporaries
# ----------------------------------------------------------------------------------------------

class _Subst(ast.NodeTransformer):
    def __init__(self, name: str, expr: ast.expr):
        self.name, self.expr, self.count = name, expr, 0

    def visit_Name(self, node):
        if node.id == self.name and isinstance(node.ctx, ast.Load):
            self.count += 1
            return ast.copy_location(copy.deepcopy(self.expr), node)
        return node

    def visit_FunctionDef(self, node):
        return node          # never into nested functions

    visit_Lambda = visit_FunctionDef

    def generic_visit(self, node):
        if _comp_binds(node, self.name):
            node.generators[0].iter = self.visit(node.generators[0].iter)
            return node
        return super().generic_visit(node)


def _comp_binds(n: ast.AST, name: str) -> bool:
    return isinstance(n, (ast.ListComp, ast.SetComp, ast.DictComp, ast.GeneratorExp)) and any(
        isinstance(m, ast.Name) and m.id == name for g in n.generators for m in ast.walk(g.target))


def _load_counts(node) -> Dict[str, int]:
    """name -> number of loads in node; a comprehension that re-binds a name hides it (its first iterable is still
    evaluated in the enclosing scope)."""
    key = ('loads', id(node))
    hit = _CACHE.get(key)
    if hit is not None and hit[0] is node:
        return hit[1]
    out: Dict[str, int] = {}
    if isinstance(node, ast.Name):
        if isinstance(node.ctx, ast.Load):
            out[node.id] = 1
    elif isinstance(node, (ast.ListComp, ast.SetComp, ast.DictComp, ast.GeneratorExp)):
        bound = {m.id for g in node.generators for m in ast.walk(g.target) if isinstance(m, ast.Name)}
        first_iter = node.generators[0].iter
        for ch in ast.iter_child_nodes(node):
            for k, c in _load_counts(ch).items():
                if k in bound:
                    continue
                out[k] = out.get(k, 0) + c
        # the first iterable is evaluated outside the comprehension's scope
        for k, c in _load_counts(first_iter).items():
            if k in bound:
                out[k] = out.get(k, 0) + c
    else:
        for ch in ast.iter_child_nodes(node):
            for k, c in _load_counts(ch).items():
                out[k] = out.get(k, 0) + c
    _CACHE[key] = (node, out)
    return out


def _count_loads(node, name: str) -> int:
    return _load_counts(node).get(name, 0)


def _count_loads_list(stmts, name):
    return sum(_count_loads(s, name) for s in stmts)


def _unconditional_use(st: ast.stmt, v: str) -> bool:
    """The single load of v in the statement's own expressions is evaluated whenever the statement is."""
    def visit(n) -> bool:
        # returns True if a load of v occurs below n in a conditionally evaluated position
        if isinstance(n, ast.BoolOp):
            for k, val in enumerate(n.values):
                if k > 0 and _count_loads(val, v):
                    return True
                if visit(val):
                    return True
            return False
        if isinstance(n, ast.IfExp):
            if _count_loads(n.body, v) or _count_loads(n.orelse, v):
                return True
            return visit(n.test)
        if isinstance(n, (ast.Lambda, ast.ListComp, ast.GeneratorExp, ast.SetComp, ast.DictComp)):
            return bool(_count_loads(n, v))
        if isinstance(n, ast.Compare) and len(n.ops) > 1:
            return bool(_count_loads(n, v))
        for c in ast.iter_child_nodes(n):
            if isinstance(c, ast.stmt):
                continue
            if visit(c):
                return True
        return False
    return not visit(st)


def _plain_def(s: ast.stmt, v: str) -> bool:
    return isinstance(s, ast.Assign) and len(s.targets) == 1 and isinstance(s.targets[0], ast.Name) \
        and s.targets[0].id == v


def _stores(node: ast.AST, v: str) -> bool:
    """Some statement inside `node` (re)binds the name v."""
    key = ('stores', id(node))
    hit = _CACHE.get(key)
    if hit is None or hit[0] is not node:
        hit = (node, _stored_names(node))
        _CACHE[key] = hit
    return v in hit[1]


def _stored_names(node: ast.AST) -> Set[str]:
    comp_targets = {id(m) for n in ast.walk(node)
                    if isinstance(n, (ast.ListComp, ast.SetComp, ast.DictComp, ast.GeneratorExp))
                    for g in n.generators for m in ast.walk(g.target)}
    out: Set[str] = set()
    for n in ast.walk(node):
        if isinstance(n, ast.Name) and isinstance(n.ctx, (ast.Store, ast.Del)) and id(n) not in comp_targets:
            out.add(n.id)
        elif isinstance(n, ast.ExceptHandler) and n.name:
            out.add(n.name)
        elif isinstance(n, (ast.FunctionDef, ast.ClassDef)):
            out.add(n.name)
        elif isinstance(n, (ast.Import, ast.ImportFrom)):
            out |= {(a.asname or a.name).split('.')[0] for a in n.names}     # (an import binds a name like an assignment)
    return out


def _stores_uncached(node: ast.AST, v: str) -> bool:
    comp_targets = {id(m) for n in ast.walk(node)
                    if isinstance(n, (ast.ListComp, ast.SetComp, ast.DictComp, ast.GeneratorExp))
                    for g in n.generators for m in ast.walk(g.target)}
    for n in ast.walk(node):
        if isinstance(n, ast.Name) and n.id == v and isinstance(n.ctx, (ast.Store, ast.Del)) \
                and id(n) not in comp_targets:
            return True
        if isinstance(n, ast.ExceptHandler) and n.name == v:
            return True
        if isinstance(n, (ast.Import, ast.ImportFrom)) and any((a.asname or a.name).split('.')[0] == v for a in n.names):
            return True
        if isinstance(n, (ast.FunctionDef, ast.ClassDef)) and n.name == v:
            return True
    return False


def _exposed(stmts: List[ast.stmt], v: str, inner: bool = False) -> Tuple[bool, bool]:
    """(a load of v can be reached from the start of `stmts` without passing a definition of v,
        every path through `stmts` that falls through its end has defined v / none falls through)"""
    for s in stmts:
        if isinstance(s, (ast.Return, ast.Raise)):
            return (_count_loads(s, v) > 0), True
        if isinstance(s, (ast.Continue, ast.Break)):
            if inner:
                return False, True      # jumps within a loop that is scanned as a whole: nothing falls through here
            return True, False          # leaves to a place this scan does not follow: conservative
        if isinstance(s, ast.If):
            if _count_loads(s.test, v):
                return True, False
            e1, d1 = _exposed(s.body, v, inner)
            e2, d2 = _exposed(s.orelse, v, inner)
            if e1 or e2:
                return True, False
            if d1 and d2:
                return False, True
            continue
        if isinstance(s, ast.While):
            if _count_loads(s.test, v):
                return True, False
            e, _d = _exposed(s.body, v, True)
            if e:
                return True, False
            e, _d = _exposed(s.orelse, v, inner)
            if e:
                return True, False
            continue
        if isinstance(s, ast.For):
            if _count_loads(s.iter, v):
                return True, False
            e, _d = _exposed(s.body, v, True)
            if e and not _stores(s.target, v):
                return True, False
            e, _d = _exposed(s.orelse, v, inner)
            if e:
                return True, False
            continue
        if isinstance(s, ast.With):
            if any(_count_loads(it.context_expr, v) for it in s.items):
                return True, False
            e, d = _exposed(s.body, v, inner)
            if e:
                return True, False
            if d:
                return False, True
            continue
        if isinstance(s, (ast.Try, ast.FunctionDef, ast.ClassDef)):
            if _count_loads(s, v) or any(isinstance(n, ast.Name) and n.id == v for n in ast.walk(s)
                                         if isinstance(s, (ast.FunctionDef, ast.ClassDef))):
                return True, False
            continue
        # simple statement
        if _count_loads(s, v):
            return True, False
        if isinstance(s, ast.AugAssign) and isinstance(s.target, ast.Name) and s.target.id == v:
            return True, False
        if _plain_def(s, v):
            return False, True
    return False, False


class _LoopBody(list):
    """A continuation segment that is the body of the enclosing loop (scanned for the next iteration): jumps in it
    stay inside the scanned region, and since the loop may end at any time a definition in it settles nothing."""


def _exposed_seq(segments: List[List[ast.stmt]], v: str) -> bool:
    for seg in segments:
        if isinstance(seg, _LoopBody):
            e, _d = _exposed(seg, v, True)
            if e:
                return True
            continue
        e, d = _exposed(seg, v)
        if e:
            return True
        if d:
            return False
    return False


def _is_import_try(s: ast.stmt) -> bool:
    """`try: from x import f as impl  except ImportError: <fallback binding>` - the backend selection idiom."""
    return isinstance(s, ast.Try) and bool(s.body) and all(isinstance(b, (ast.Import, ast.ImportFrom)) for b in s.body) \
        and not s.finalbody and not s.orelse and all(_import_error_only(h) for h in s.handlers)


def rebound_names(node: ast.AST) -> Set[str]:
    """Names that are re-bound (or resized through a method call) inside node - element stores do not count."""
    key = ('rebound', id(node))
    hit = _CACHE.get(key)
    if hit is not None and hit[0] is node:
        return hit[1]
    r = _rebound_names(node)
    _CACHE[key] = (node, r)
    return r


def _rebound_names(node: ast.AST) -> Set[str]:
    out: Set[str] = set()
    for n in ast.walk(node):
        tg = []
        if isinstance(n, ast.Assign):
            tg = n.targets
        elif isinstance(n, (ast.AugAssign, ast.AnnAssign)):
            tg = [n.target]
        elif isinstance(n, ast.For):
            tg = [n.target]
        elif isinstance(n, ast.Delete):
            tg = n.targets
        for t in tg:
            for e in (t.elts if isinstance(t, (ast.Tuple, ast.List)) else [t]):
                if isinstance(e, ast.Name):
                    out.add(e.id)
        if isinstance(n, ast.Call):
            _call_kills(n, out)
        elif isinstance(n, (ast.With, ast.ExceptHandler, ast.NamedExpr, ast.Import, ast.ImportFrom, ast.FunctionDef,
                            ast.ClassDef)) and n is not node:
            out |= mutated_names(n, calls=False) if not isinstance(n, (ast.FunctionDef, ast.ClassDef)) else {n.name}
    return out


def _len_only_names(E: ast.expr) -> Set[str]:
    """Operands of E that occur only as the argument of len(): their elements may change freely."""
    inside: Dict[str, int] = {}
    for n in ast.walk(E):
        if isinstance(n, ast.Call) and isinstance(n.func, ast.Name) and n.func.id == 'len' and len(n.args) == 1 \
                and isinstance(n.args[0], ast.Name):
            inside[n.args[0].id] = inside.get(n.args[0].id, 0) + 1
    total: Dict[str, int] = {}
    for n in ast.walk(E):
        if isinstance(n, ast.Name):
            total[n.id] = total.get(n.id, 0) + 1
    return {k for k, c in inside.items() if total.get(k) == c}


class _DefInliner:
    """Forward substitution of ONE definition `v = E` (block[idx]) into the uses it reaches.

    Valid when (1) no operand of E is modified between the definition and a use, (2) v is not re-bound
    before a use other than by a definition that ends the reach, and (3) v is dead where the reach ends
    without such a definition (no load of v can be reached from there, the loop back edge included)."""

    def __init__(self, v: str, E: ast.expr):
        self.v, self.E = v, E
        self.free = _names_loaded(E)
        self.len_only = _len_only_names(E)
        self.pure = _is_pure_expr(E)
        self.effect_free = _is_effect_free_expr(E)
        self.sites: List[ast.AST] = []      # statements (or their expression fields) where v gets replaced

    def _kills(self, node: ast.AST) -> bool:
        """Executing node may change the value of E."""
        if mutated_names(node) & (self.free - self.len_only):
            return True
        return bool(rebound_names(node) & self.len_only)

    # -- phase 1: find the use sites, check validity ------------------------------------------------
    def check(self, block: List[ast.stmt], idx: int, cont: List[List[ast.stmt]]) -> bool:
        v = self.v
        if v in self.free:
            return False
        if not any(_count_loads(s_, v) for s_ in block[idx + 1:]):
            return False
        ok, ended = self._scan(block[idx + 1:], False, False)
        if ok:
            for site in self.sites:
                for n in ast.walk(site):
                    if isinstance(n, (ast.ListComp, ast.SetComp, ast.DictComp)) and _count_loads(n, v):
                        tg = {m.id for g in n.generators for m in ast.walk(g.target) if isinstance(m, ast.Name)}
                        if tg & self.free:
                            return False
        if not ok:
            return False
        if not ended and _exposed_seq(cont, v):
            return False
        n = self.total
        if n == 0:
            return False
        if self.pure:
            return n == 1 or _size(self.E) <= 40
        # impure: exactly one use, evaluated exactly once, before anything else that could interfere
        if n != 1:
            return False
        # calls of the units of analysis stay statements of their own (rules are anchored on them)
        for c in ast.walk(self.E):
            if isinstance(c, ast.Call):
                nm = c.func.id if isinstance(c.func, ast.Name) else c.func.attr if isinstance(c.func, ast.Attribute) else ''
                if nm in ANCHORS or nm.startswith('get_tau'):
                    return False
        k = idx + 1
        while k < len(block) and _count_loads(block[k], v) == 0:
            s = block[k]
            if _is_import_try(s) and not mutated_names(s) & (self.free | {v}):
                k += 1
                continue
            if self.effect_free and not mutated_names(s) & (self.free | {v}) and not any(
                    isinstance(n, (ast.Return, ast.Raise, ast.Break, ast.Continue, ast.FunctionDef, ast.Lambda, ast.Yield))
                    for n in ast.walk(s)):
                # E only calls functions that modify nothing: evaluating it after an unrelated statement is the same
                k += 1
                continue
            if not (isinstance(s, ast.Assign) and len(s.targets) == 1 and isinstance(s.targets[0], ast.Name)
                    and not (mutated_names(s) - {s.targets[0].id}) & (self.free | {v})
                    and s.targets[0].id not in self.free):
                return False
            k += 1
        if k >= len(block):
            return False
        user = block[k]
        if isinstance(user, ast.For):
            if _count_loads(user.iter, v) != 1:
                return False
        elif isinstance(user, ast.If):
            if _count_loads(user.test, v) != 1:
                return False
        elif isinstance(user, (ast.While, ast.Try, ast.With, ast.FunctionDef, ast.ClassDef)):
            return False
        return _unconditional_use(user, v)

    total = 0

    def _use(self, node: ast.AST, killed: bool) -> bool:
        c = _count_loads(node, self.v)
        if c and killed:
            return False
        if c:
            self.total += c
            self.sites.append(node)
        return True

    def _scan(self, stmts: List[ast.stmt], killed: bool, maydef: bool) -> Tuple[bool, bool]:
        """-> (valid, the reach has ended on every path that falls through `stmts`)"""
        v = self.v
        for s in stmts:
            if isinstance(s, (ast.FunctionDef, ast.ClassDef)):
                if any(isinstance(n, ast.Name) and n.id == v for n in ast.walk(s)):
                    return False, False
                continue
            if _stores(s, v):
                if _plain_def(s, v):
                    if maydef and _count_loads(s.value, v):
                        return False, False
                    if not self._use(s.value, killed):
                        return False, False
                    return True, True
                # a compound statement (or augmented assignment) that may re-bind v
                e, d = _exposed([s], v)
                if e:
                    return False, False
                if d:
                    return True, True
                maydef = True
                continue
            if maydef and _count_loads(s, v):
                return False, False
            if isinstance(s, ast.If):
                if not self._use(s.test, killed):
                    return False, False
                k_test = killed or self._kills(s.test)
                ok1, e1 = self._scan(s.body, k_test, maydef)
                ok2, e2 = self._scan(s.orelse, k_test, maydef)
                if not (ok1 and ok2):
                    return False, False
                killed = k_test or self._kills(ast.Module(body=s.body + s.orelse, type_ignores=[]))
                # (no definition of v inside: e1/e2 are False unless the branch cannot fall through)
            elif isinstance(s, (ast.For, ast.While)):
                muts = self._kills(s)
                if _count_loads(s, v):
                    if killed or muts:
                        return False, False
                    self.total += _count_loads(s, v)
                    self.sites.append(s)
                killed = killed or bool(muts)
            elif isinstance(s, (ast.Try, ast.With)):
                muts = self._kills(s)
                if _count_loads(s, v):
                    if killed or muts:
                        return False, False
                    self.total += _count_loads(s, v)
                    self.sites.append(s)
                killed = killed or bool(muts)
            elif isinstance(s, (ast.Return, ast.Raise)):
                if not self._use(s, killed):
                    return False, False
                return True, True
            elif isinstance(s, (ast.Continue, ast.Break)):
                return True, False
            else:
                if not self._use(s, killed):
                    return False, False
                if isinstance(s, ast.AugAssign) and isinstance(s.target, ast.Name) and s.target.id == v:
                    return False, False
                if self._kills(s):
                    killed = True
        return True, False

    # -- phase 2 ----------------------------------------------------------------------------------
    def apply(self):
        sub = _Subst(self.v, self.E)
        for site in self.sites:
            if isinstance(site, ast.stmt):
                # in place: visit children fields
                for fld, val in ast.iter_fields(site):
                    if isinstance(val, list):
                        val[:] = [sub.visit(x) if isinstance(x, ast.AST) else x for x in val]
                    elif isinstance(val, ast.AST):
                        setattr(site, fld, sub.visit(val))
            else:
                # an expression node owned by some statement: replace inside it, in place
                self._inplace_expr(site, sub)

    def _inplace_expr(self, e: ast.AST, sub: '_Subst'):
        if isinstance(e, ast.Name):
            # the expression IS the variable: turn this node into a copy of E
            new = copy.deepcopy(self.E)
            e.__class__ = new.__class__
            e.__dict__.clear()
            e.__dict__.update(new.__dict__)
            return
        for fld, val in ast.iter_fields(e):
            if isinstance(val, list):
                val[:] = [sub.visit(x) if isinstance(x, ast.AST) else x for x in val]
            elif isinstance(val, ast.AST):
                setattr(e, fld, sub.visit(val))


def _sink_killers(block: List[ast.stmt], idx: int, v: str, inl: '_DefInliner') -> bool:
    """`v = E` at block[idx]: a later simple statement of the block that modifies an operand of E while uses of v
    still follow is moved behind those uses when it commutes with everything it passes (then E can replace v)."""
    moved = False
    j = idx + 1
    while j < len(block):
        K = block[j]
        if isinstance(K, (ast.Assign, ast.AugAssign)) and inl._kills(K) and not _plain_def(K, v):
            # last statement after K (same block) that still uses v
            last_use = max((q for q in range(j + 1, len(block)) if _count_loads(block[q], v)), default=None)
            if last_use is not None:
                # K itself may use v (in its value): that use is evaluated before K's store and stays legal
                ok = all(isinstance(block[q], (ast.Assign, ast.AugAssign)) and _commute(K, block[q])
                         for q in range(j + 1, last_use + 1))
                if ok:
                    block.insert(last_use + 1, K)
                    del block[j]
                    _invalidate()
                    moved = True
                    continue
        j += 1
    return moved


def _fn_params(fn: ast.FunctionDef) -> Set[str]:
    params = {a.arg for a in fn.args.args + fn.args.kwonlyargs + fn.args.posonlyargs}
    if fn.args.vararg:
        params.add(fn.args.vararg.arg)
    if fn.args.kwarg:
        params.add(fn.args.kwarg.arg)
    return params


def _inline_temps(fn: ast.FunctionDef, keep_generated_copies: bool = False) -> bool:
    """One round of N6 over the function; returns whether something changed."""
    params = _fn_params(fn)
    excluded: Set[str] = set(params)
    for n in ast.walk(fn):
        if isinstance(n, (ast.Global, ast.Nonlocal)):
            excluded |= set(n.names)
        if isinstance(n, (ast.FunctionDef, ast.Lambda, ast.GeneratorExp)) and n is not fn:
            excluded |= {m.id for m in ast.walk(n) if isinstance(m, ast.Name)}

    # objects that are modified in place (element / attribute stores, mutating calls) keep their name: replacing
    # the name by its defining expression would re-evaluate that expression and store into a temporary.  (A
    # temporary that is used exactly once, as an operand or argument, is still replaceable: the expression is
    # evaluated once either way and yields the same object.)
    modified: Set[str] = set()
    _excluded_before = set(excluded)
    for n in ast.walk(fn):
        tg = []
        if isinstance(n, ast.Assign):
            tg = n.targets
        elif isinstance(n, (ast.AugAssign, ast.AnnAssign)):
            tg = [n.target]
        elif isinstance(n, ast.Delete):
            tg = n.targets
        elif isinstance(n, ast.For):
            tg = [n.target]
        for t in tg:
            for e in (t.elts if isinstance(t, (ast.Tuple, ast.List)) else [t]):
                if isinstance(e, (ast.Subscript, ast.Attribute)) and _base_name(e):
                    excluded.add(_base_name(e))
        if isinstance(n, ast.Call):
            _call_kills(n, modified)
    store_bases = excluded - _excluded_before
    modified -= excluded

    changed = False

    def attempt(block: List[ast.stmt], cont: List[List[ast.stmt]]):
        nonlocal changed
        k = 0
        while k < len(block):
            s = block[k]
            if isinstance(s, ast.Assign) and len(s.targets) == 1 and isinstance(s.targets[0], ast.Name) \
                    and s.targets[0].id not in excluded and not (s.targets[0].id.startswith('N_') and '__inl' not in s.targets[0].id):
                v = s.targets[0].id
                if keep_generated_copies and isinstance(s.value, ast.Name) and ('__inl' in s.value.id or s.value.id.startswith('__r')) \
                        and not ('__inl' in v or v.startswith('__r')):
                    k += 1
                    continue            # `name = <generated>`: left to copy coalescing, which keeps the caller's name
                inl = _DefInliner(v, s.value)
                good = inl.check(block, k, cont) and (v not in modified or inl.total == 1)
                if not good and inl.pure and _sink_killers(block, k, v, inl):
                    _invalidate()
                    inl = _DefInliner(v, s.value)
                    good = inl.check(block, k, cont) and (v not in modified or inl.total == 1)
                if good:
                    inl.apply()
                    del block[k]
                    if not block:
                        block.append(_fix(ast.Pass(), s))
                    _invalidate()
                    changed = True
                    continue          # the statement that moved up to position k is examined next
            if isinstance(s, (ast.FunctionDef, ast.ClassDef)):
                k += 1
                continue
            rest = block[k + 1:]
            if isinstance(s, (ast.While, ast.For)):
                head = [_fix(ast.Expr(value=s.test), s)] if isinstance(s, ast.While) else \
                    [_fix(ast.Expr(value=s.iter), s)]
                attempt(s.body, [head, _LoopBody(s.body), s.orelse, rest] + cont)
                attempt(s.orelse, [rest] + cont)
            elif isinstance(s, ast.Try):
                everything = [s.body, s.orelse, s.finalbody] + [h.body for h in s.handlers]
                for b_ in everything:
                    attempt(b_, [x for x in everything if x is not b_] + [rest] + cont)
            else:
                for b_ in _blocks_of(s):
                    attempt(b_, [rest] + cont)
            k += 1

    _invalidate()
    attempt(fn.body, [])
    _invalidate()
    return changed


# ----------------------------------------------------------------------------------------------
# N11: statements common to all branches of an if/else move out of it
# ----------------------------------------------------------------------------------------------

_SIMPLE = (ast.Assign, ast.AugAssign)


def _same(a: ast.stmt, b: ast.stmt) -> bool:
    return type(a) is type(b) and ast.dump(a) == ast.dump(b)


def _import_error_only(h: ast.ExceptHandler) -> bool:
    return isinstance(h.type, ast.Name) and h.type.id in ('ImportError', 'ModuleNotFoundError')


def _find_movable(blocks: List[List[ast.stmt]], from_end: bool, barrier_reads: Set[str]):
    """A simple statement that occurs in every block and can be moved to the end (start) of each of them because
    it commutes with everything behind (before) it there.  Returns the per-block positions or None."""
    first = blocks[0]
    order = range(len(first) - 1, -1, -1) if from_end else range(len(first))
    for i in order:
        S = first[i]
        if not isinstance(S, _SIMPLE):
            continue
        if not from_end and ((mutated_names(S) & barrier_reads) or _rw(S)[2]):
            continue
        pos = []
        for blk in blocks:
            found = None
            for j, T in enumerate(blk):
                if _same(S, T):
                    others = blk[j + 1:] if from_end else blk[:j]
                    if all(_commute(T, o) for o in others):
                        found = j
                    break
            if found is None:
                pos = None
                break
            pos.append(found)
        if pos is not None:
            return pos
    return None


def _branch_motion_elif(node: ast.If):
    node.body[:] = _branch_motion(node.body)
    if len(node.orelse) == 1 and isinstance(node.orelse[0], ast.If):
        _branch_motion_elif(node.orelse[0])
    else:
        node.orelse[:] = _branch_motion(node.orelse)


def _branch_motion(block: List[ast.stmt]) -> List[ast.stmt]:
    out: List[ast.stmt] = []
    for st in block:
        if isinstance(st, (ast.FunctionDef, ast.ClassDef)):
            out.append(st)
            continue
        for b in _blocks_of(st):
            if isinstance(st, ast.If) and b is st.orelse and len(b) == 1 and isinstance(b[0], ast.If):
                # else-if: the nested `if` is an arm of this chain, only its own blocks are visited here
                _branch_motion_elif(b[0])
                continue
            b[:] = _branch_motion(b)
        if isinstance(st, ast.Try) and not st.finalbody and not st.orelse and st.handlers \
                and all(_import_error_only(h) for h in st.handlers):
            post = []
            blocks = [st.body] + [h.body for h in st.handlers]
            while all(len(b) > 1 for b in blocks):
                pos = _find_movable(blocks, True, set())
                if pos is None:
                    break
                post.insert(0, blocks[0][pos[0]])
                for b, p in zip(blocks, pos):
                    del b[p]
                _invalidate()
            out.append(st)
            out.extend(post)
            continue
        if isinstance(st, ast.If) and st.orelse:
            # the arms of the whole if / elif / else chain: a statement moves only if it is common to all of them,
            # so that the chain keeps its shape
            pre: List[ast.stmt] = []
            post: List[ast.stmt] = []
            test_reads = {n.id for n in ast.walk(st.test) if isinstance(n, ast.Name)}
            arms = [st.body]
            inner = st
            while len(inner.orelse) == 1 and isinstance(inner.orelse[0], ast.If) and inner.orelse[0].orelse:
                inner = inner.orelse[0]
                test_reads |= {n.id for n in ast.walk(inner.test) if isinstance(n, ast.Name)}
                arms.append(inner.body)
            if len(inner.orelse) == 1 and isinstance(inner.orelse[0], ast.If):
                # chain without a final else: on the path where no test holds nothing is executed
                out.append(st)
                continue
            arms.append(inner.orelse)
            while all(arms):
                pos = _find_movable(arms, False, test_reads)
                if pos is None:
                    break
                pre.append(arms[0][pos[0]])
                for b_, p_ in zip(arms, pos):
                    del b_[p_]
                _invalidate()
            while all(arms):
                pos = _find_movable(arms, True, set())
                if pos is None:
                    break
                post.insert(0, arms[0][pos[0]])
                for b_, p_ in zip(arms, pos):
                    del b_[p_]
                _invalidate()
            out.extend(pre)
            if any(arms):
                for b_ in arms:
                    if not b_:
                        b_.append(_fix(ast.Pass(), st))
                _hoist_in_tail(st)
                out.append(st)
            out.extend(post)
        else:
            out.append(st)
    return out


def _hoist_in_tail(node: ast.If):
    """What is common to all arms of the *rest* of a chain - `elif B: X; Y else: X; Z` - moves in front of (behind) that
    rest, inside the else of the arm before it: `else: X; if B: Y else: Z`.  (The same statement written once per
    remaining case, or once for all of them, is one program.)"""
    if not (len(node.orelse) == 1 and isinstance(node.orelse[0], ast.If) and node.orelse[0].orelse):
        return
    inner = node.orelse[0]
    _hoist_in_tail(inner)
    if not (len(node.orelse) == 1 and node.orelse[0] is inner):
        return
    test_reads = {n.id for n in ast.walk(inner.test) if isinstance(n, ast.Name)}
    arms = [inner.body]
    cur = inner
    while len(cur.orelse) == 1 and isinstance(cur.orelse[0], ast.If) and cur.orelse[0].orelse:
        cur = cur.orelse[0]
        test_reads |= {n.id for n in ast.walk(cur.test) if isinstance(n, ast.Name)}
        arms.append(cur.body)
    if len(cur.orelse) == 1 and isinstance(cur.orelse[0], ast.If):
        return
    arms.append(cur.orelse)
    pre: List[ast.stmt] = []
    post: List[ast.stmt] = []

    def plain(st_) -> bool:
        # only a plain definition `name = <side-effect free value>` moves: an update of a variable (a cursor that
        # advances, an accumulator) is part of the case it stands in
        return isinstance(st_, ast.Assign) and len(st_.targets) == 1 and isinstance(st_.targets[0], ast.Name) \
            and _is_pure_expr(st_.value) and st_.targets[0].id not in _names_loaded(st_.value)
    while all(len(a) > 1 for a in arms):
        pos = _find_movable(arms, False, test_reads)
        if pos is None or not plain(arms[0][pos[0]]):
            break
        pre.append(arms[0][pos[0]])
        for b_, p_ in zip(arms, pos):
            del b_[p_]
        _invalidate()
    while all(len(a) > 1 for a in arms):
        pos = _find_movable(arms, True, set())
        if pos is None or not plain(arms[0][pos[0]]):
            break
        post.insert(0, arms[0][pos[0]])
        for b_, p_ in zip(arms, pos):
            del b_[p_]
        _invalidate()
    if pre or post:
        node.orelse[:] = pre + [inner] + post


# ----------------------------------------------------------------------------------------------
# N10: canonical order of adjacent independent simple statements
# ----------------------------------------------------------------------------------------------

def _rw(st: ast.stmt) -> Tuple[Set[str], Set[str], bool]:
    key = ('rw', id(st))
    hit = _CACHE.get(key)
    if hit is not None and hit[0] is st:
        return hit[1]
    r = _rw_uncached(st)
    _CACHE[key] = (st, r)
    return r


def _rw_uncached(st: ast.stmt) -> Tuple[Set[str], Set[str], bool]:
    writes = mutated_names(st)
    reads = {n.id for n in ast.walk(st) if isinstance(n, ast.Name)}
    # calls of unknown callables / library plotting or printing are kept in place
    impure = False
    for n in ast.walk(st):
        if isinstance(n, ast.Call) and not _is_pure_call(n):
            f = n.func
            if isinstance(f, ast.Name) and f.id in KNOWN_FUNCS and not MUTATORS.get(f.id):
                continue
            if isinstance(f, ast.Attribute) and _base_name(f.value) in ('np', 'numpy', 'math'):
                continue
            impure = True
    return reads, writes, impure


def _commute(a: ast.stmt, b: ast.stmt) -> bool:
    ra, wa, ia = _rw(a)
    rb, wb, ib = _rw(b)
    if ia and ib:
        return False
    if isinstance(a, ast.Assign) and isinstance(b, ast.Assign) and len(a.targets) == 1 and len(b.targets) == 1 \
            and isinstance(a.targets[0], ast.Subscript) and isinstance(b.targets[0], ast.Subscript) \
            and ast.dump(a.value) == ast.dump(b.value) and _base_name(a.targets[0]) == _base_name(b.targets[0]):
        # two stores of the same value into one array: the order is immaterial even if the indices coincide
        tw = {_base_name(a.targets[0])}
        if not ((wa - tw) & (rb | wb)) and not ((wb - tw) & ra) and _base_name(a.targets[0]) not in \
                (_names_loaded(a.value) | _names_loaded(a.targets[0].slice) | _names_loaded(b.targets[0].slice)):
            return True
    return not (wa & (rb | wb)) and not (wb & ra)


def _index_to_element_comprehensions(fn: ast.FunctionDef) -> bool:
    """N24: `[E(L[i]) for i in range(len(L))]` where the comprehension uses i only to read `L[i]` (L a name the
    comprehension does not re-bind) is `[E(x) for x in L]`."""
    changed = False
    taken = {n.id for n in ast.walk(fn) if isinstance(n, ast.Name)}

    class T(ast.NodeTransformer):
        def visit_FunctionDef(self, node):
            if node is fn:
                self.generic_visit(node)
            return node

        def _comp(self, node):
            nonlocal changed
            self.generic_visit(node)
            if len(node.generators) != 1:
                return node
            g = node.generators[0]
            it = g.iter
            if not (isinstance(g.target, ast.Name) and isinstance(it, ast.Call) and isinstance(it.func, ast.Name)
                    and it.func.id in ('range', 'xrange') and len(it.args) == 1 and not it.keywords):
                return node
            a = it.args[0]
            L = None
            if isinstance(a, ast.Call) and isinstance(a.func, ast.Name) and a.func.id == 'len' and len(a.args) == 1 \
                    and isinstance(a.args[0], ast.Name):
                L = a.args[0].id
            elif isinstance(a, ast.Name) and a.id.startswith('N_') and a.id[2:] in taken:
                L = a.id[2:]            # the length name this normaliser gives to len(L)
            if L is None:
                return node
            i = g.target.id
            parts = [node.elt] + list(g.ifs) if not isinstance(node, ast.DictComp) else None
            if parts is None:
                return node
            uses = [n for p_ in parts for n in ast.walk(p_) if isinstance(n, ast.Name) and n.id == i]
            subs = [n for p_ in parts for n in ast.walk(p_) if isinstance(n, ast.Subscript) and isinstance(n.value, ast.Name)
                    and n.value.id == L and isinstance(n.slice, ast.Name) and n.slice.id == i and isinstance(n.ctx, ast.Load)]
            if not uses or len(uses) != len(subs):
                return node
            x = f"{L}__x"
            k = 0
            while x in taken:
                k += 1
                x = f"{L}__x{k}"
            taken.add(x)

            class R(ast.NodeTransformer):
                def visit_Subscript(self, n):
                    if isinstance(n.value, ast.Name) and n.value.id == L and isinstance(n.slice, ast.Name) and n.slice.id == i:
                        return ast.copy_location(ast.Name(id=x, ctx=ast.Load()), n)
                    return self.generic_visit(n)
            node.elt = R().visit(node.elt)
            g.ifs = [R().visit(c) for c in g.ifs]
            g.target = ast.copy_location(ast.Name(id=x, ctx=ast.Store()), g.target)
            g.iter = ast.copy_location(ast.Name(id=L, ctx=ast.Load()), g.iter)
            changed = True
            return node

        visit_ListComp = _comp
        visit_GeneratorExp = _comp
        visit_SetComp = _comp
    T().visit(fn)
    if changed:
        ast.fix_missing_locations(fn)
        _invalidate()
    return changed


def _sink_defs_into_branches(fn: ast.FunctionDef) -> bool:
    """N25: `v = E` (E side-effect free) directly in front of an `if` with an else, v occurring nowhere in the function but
    in that definition and inside the arms of that `if` (not in its tests): the definition moves to the start of every arm
    that mentions v.  (Whether a value needed on both branches is fetched before the decision or on each branch is one
    program; on a branch that only reads it the substitution of temporaries then applies.)"""
    changed = False
    occ: Dict[str, int] = {}
    for n in ast.walk(fn):
        if isinstance(n, ast.Name):
            occ[n.id] = occ.get(n.id, 0) + 1
    params = _fn_params(fn)

    def arms_of(node: ast.If):
        out_ = [node.body]
        tests = [node.test]
        cur = node
        while len(cur.orelse) == 1 and isinstance(cur.orelse[0], ast.If):
            cur = cur.orelse[0]
            out_.append(cur.body)
            tests.append(cur.test)
        out_.append(cur.orelse)
        return out_, tests

    def visit(block):
        nonlocal changed
        for st in block:
            if not isinstance(st, (ast.FunctionDef, ast.ClassDef)):
                for b in _blocks_of(st):
                    visit(b)
        k = 0
        while k + 1 < len(block):
            s_, nx = block[k], block[k + 1]
            if isinstance(s_, ast.Assign) and len(s_.targets) == 1 and isinstance(s_.targets[0], ast.Name) and isinstance(nx, ast.If) \
                    and nx.orelse and _is_pure_expr(s_.value) and not isinstance(s_.value, (ast.Constant,)):
                v = s_.targets[0].id
                arms, tests = arms_of(nx)
                inside = sum(1 for n in ast.walk(nx) if isinstance(n, ast.Name) and n.id == v)
                in_tests = any(isinstance(n, ast.Name) and n.id == v for t_ in tests for n in ast.walk(t_))
                if v not in params and v not in _names_loaded(s_.value) and not in_tests and arms[-1] \
                        and occ.get(v, 0) == inside + 1 and inside > 0 \
                        and not (mutated_names(ast.Module(body=[ast.Expr(value=t_) for t_ in tests], type_ignores=[])) & _names_loaded(s_.value)):
                    using = [a for a in arms if any(isinstance(n, ast.Name) and n.id == v for x in a for n in ast.walk(x))]
                    # worthwhile only when some arm merely reads it or some arm does not need it at all
                    if len(using) < len(arms) or any(not any(_stores(x, v) for x in a) for a in using):
                        for a in using:
                            a.insert(0, copy.deepcopy(s_))
                        del block[k]
                        occ[v] = occ.get(v, 0) + len(using) - 1
                        changed = True
                        continue
            k += 1
    visit(fn.body)
    if changed:
        ast.fix_missing_locations(fn)
        _invalidate()
    return changed


def _enumerate_to_range(fn: ast.FunctionDef) -> bool:
    """N30: `for i, x in enumerate(X)` over a sequence parameter X that the function also indexes / measures (`X[k]`,
    `len(X)`) and that the loop does not change, with i and x only read in the body, is `for i in range(len(X))` with
    every `x` read as `X[i]` (the element at the moment of the iteration: nothing stores into X meanwhile)."""
    params = _fn_params(fn)
    seq_evidence: Set[str] = set()
    for n in ast.walk(fn):
        if isinstance(n, ast.Subscript) and isinstance(n.value, ast.Name) and n.value.id in params:
            seq_evidence.add(n.value.id)
        if isinstance(n, ast.Call) and isinstance(n.func, ast.Name) and n.func.id == 'len' and len(n.args) == 1 \
                and isinstance(n.args[0], ast.Name) and n.args[0].id in params:
            seq_evidence.add(n.args[0].id)
    changed = False

    def visit(block):
        nonlocal changed
        for st in block:
            if isinstance(st, (ast.FunctionDef, ast.ClassDef)):
                continue
            if isinstance(st, ast.For) and not st.orelse and isinstance(st.target, ast.Tuple) and len(st.target.elts) == 2 \
                    and all(isinstance(e, ast.Name) for e in st.target.elts) and isinstance(st.iter, ast.Call) \
                    and isinstance(st.iter.func, ast.Name) and st.iter.func.id == 'enumerate' and len(st.iter.args) == 1 \
                    and not st.iter.keywords and isinstance(st.iter.args[0], ast.Name) and st.iter.args[0].id in seq_evidence:
                i, x, X = st.target.elts[0].id, st.target.elts[1].id, st.iter.args[0].id
                body_mut = set()
                for b in st.body:
                    body_mut |= mutated_names(b)
                nested_scope = any(isinstance(n, (ast.FunctionDef, ast.Lambda, ast.ClassDef)) for b in st.body for n in ast.walk(b))
                used_after = any(isinstance(n, ast.Name) and n.id == x and isinstance(n.ctx, ast.Load)
                                 for n in ast.walk(fn) if not any(n is m for b in st.body for m in ast.walk(b)))
                if not ({i, x, X} & body_mut) and not nested_scope and not used_after and len({i, x, X}) == 3 \
                        and stores_count.get(X, 0) == 0 and stores_count.get(x, 0) == 1 and stores_count.get(i, 0) == 1:
                    elem = ast.Subscript(value=ast.Name(id=X, ctx=ast.Load()), slice=ast.Name(id=i, ctx=ast.Load()), ctx=ast.Load())
                    sub = _Subst(x, elem)
                    st.body = [sub.visit(b) for b in st.body]
                    st.target = ast.Name(id=i, ctx=ast.Store())
                    st.iter = ast.Call(func=ast.Name(id='range', ctx=ast.Load()),
                                       args=[ast.Call(func=ast.Name(id='len', ctx=ast.Load()), args=[ast.Name(id=X, ctx=ast.Load())],
                                                      keywords=[])], keywords=[])
                    ast.fix_missing_locations(st)
                    changed = True
            for b in _blocks_of(st):
                visit(b)
    stores_count: Dict[str, int] = {}
    for n in ast.walk(fn):
        if isinstance(n, ast.Name) and isinstance(n.ctx, (ast.Store, ast.Del)):
            stores_count[n.id] = stores_count.get(n.id, 0) + 1
    visit(fn.body)
    if changed:
        _invalidate()
    return changed


def _duplicate_tail_into_arms(fn: ast.FunctionDef) -> bool:
    """N31: an if / elif / else chain whose arms all define the same plain temporaries, followed - up to the end of its
    block - by simple statements that consume exactly those temporaries (the stores / updates that every case has in
    common, written once behind the chain): the tail is the end of every arm.  The temporaries are then substituted by
    the ordinary passes, which gives the form in which each case stores its own values."""
    changed = False

    def arms_of(node: ast.If) -> Optional[List[List[ast.stmt]]]:
        arms = [node.body]
        cur = node
        while len(cur.orelse) == 1 and isinstance(cur.orelse[0], ast.If):
            cur = cur.orelse[0]
            arms.append(cur.body)
        if not cur.orelse:
            return None
        arms.append(cur.orelse)
        return arms

    def plain_defs(arm: List[ast.stmt]) -> Set[str]:
        return {st.targets[0].id for st in arm if isinstance(st, ast.Assign) and len(st.targets) == 1
                and isinstance(st.targets[0], ast.Name)}

    def visit(block, in_loop):
        nonlocal changed
        for st in block:
            if isinstance(st, (ast.FunctionDef, ast.ClassDef)):
                continue
            for b in _blocks_of(st):
                visit(b, in_loop or isinstance(st, (ast.For, ast.While)))
        for k, st in enumerate(block):
            if not (isinstance(st, ast.If) and st.orelse):
                continue
            tail = block[k + 1:]
            if not tail or len(tail) > 8 or not in_loop:
                continue
            if not all(isinstance(t, (ast.Assign, ast.AugAssign)) and not isinstance(getattr(t, 'value', None), (ast.Yield, ast.Await))
                       for t in tail):
                continue
            arms = arms_of(st)
            if arms is None or len(arms) < 2 or any(terminates(a) for a in arms):
                continue
            common = set.intersection(*[plain_defs(a) for a in arms])
            tail_reads: Set[str] = set()
            for t in tail:
                tail_reads |= _names_loaded(t)
            temps = common & tail_reads
            if not temps:
                continue
            # the temporaries live only in the arms and the tail
            inside = set()
            for a in arms:
                for s_ in a:
                    inside |= {id(n) for n in ast.walk(s_)}
            for t in tail:
                inside |= {id(n) for n in ast.walk(t)}
            if any(isinstance(n, ast.Name) and n.id in temps and id(n) not in inside for n in ast.walk(fn)):
                continue
            for a in arms:
                a.extend(copy.deepcopy(tail))
                for v in sorted(temps):
                    forward(a, v)
            del block[k + 1:]
            changed = True
            break

    def forward(arm: List[ast.stmt], v: str):
        # substitute the single plain definition `v = E` of this arm into the simple statements behind it; an increment
        # `w += c` of a name that E reads is carried along as E[w := w - c]
        defs = [i for i, st in enumerate(arm) if _stores(st, v)]
        if len(defs) != 1 or not _plain_def(arm[defs[0]], v):
            return
        d = defs[0]
        E = copy.deepcopy(arm[d].value)
        if not _is_pure_expr(E) or v in _names_loaded(E):
            return
        new_stmts = []
        for st in arm[d + 1:]:
            if not isinstance(st, (ast.Assign, ast.AugAssign)):
                if v in _names_loaded(st):
                    return
                if mutated_names(st) & _names_loaded(E):
                    return
                new_stmts.append(st)
                continue
            st2 = copy.deepcopy(st)
            if v in _names_loaded(st2):
                st2 = _Subst(v, E).visit(st2)
            new_stmts.append(st2)
            up = _self_update(st)
            killed = mutated_names(st) & _names_loaded(E)
            if killed:
                if up is not None and killed == {up[0]} and isinstance(up[1], (ast.Add, ast.Sub)) and _is_num_literal(up[2]):
                    inv = ast.BinOp(left=ast.Name(id=up[0], ctx=ast.Load()), op=ast.Sub() if isinstance(up[1], ast.Add) else ast.Add(),
                                    right=copy.deepcopy(up[2]))
                    E = _Subst(up[0], inv).visit(E)
                else:
                    # later reads of v cannot be expressed any more
                    rest = arm[d + 1 + len(new_stmts):]
                    if any(v in _names_loaded(r) for r in rest):
                        return
        arm[d:] = new_stmts
    visit(fn.body, False)
    if changed:
        ast.fix_missing_locations(fn)
        _invalidate()
    return changed


def _forward_across_increments(fn: ast.FunctionDef) -> bool:
    """N32: a plain temporary `v = E` (defined once in the function, E side-effect free) whose uses lie behind an
    increment `w += c` of a name that E reads - so that the ordinary substitution is blocked - is still substituted: behind
    the increment the value of E is E[w := w - c].  All uses must lie behind the definition in its own block (nested
    arms included); where the arms of an `if` leave different expressions for the value, or anything else changes what E
    reads, a later use stops the rewrite."""
    changed = False
    stores: Dict[str, int] = {}
    loads: Dict[str, int] = {}
    for n in ast.walk(fn):
        if isinstance(n, ast.Name):
            if isinstance(n.ctx, ast.Load):
                loads[n.id] = loads.get(n.id, 0) + 1
            else:
                stores[n.id] = stores.get(n.id, 0) + 1
    params = _fn_params(fn)

    class Fail(Exception):
        pass

    def run(stmts: List[ast.stmt], v: str, E: Optional[ast.expr], counter: List[int]) -> Optional[ast.expr]:
        for st in stmts:
            if isinstance(st, (ast.FunctionDef, ast.ClassDef, ast.Lambda)):
                raise Fail()
            if isinstance(st, (ast.Assign, ast.AugAssign, ast.Expr, ast.Return)):
                if v in _names_loaded(st):
                    if E is None:
                        raise Fail()
                    sub = _Subst(v, E)
                    sub.visit(st)
                    counter[0] += sub.count
                if E is not None:
                    killed = mutated_names(st) & _names_loaded(E)
                    if killed:
                        inc = None
                        if isinstance(st, ast.AugAssign) and isinstance(st.target, ast.Name) and isinstance(st.op, (ast.Add, ast.Sub)) \
                                and _is_num_literal(st.value):
                            inc = (st.target.id, st.op, st.value)
                        else:
                            up = _self_update(st)
                            if up is not None and isinstance(up[1], (ast.Add, ast.Sub)) and _is_num_literal(up[2]):
                                inc = up
                        if inc is not None and killed == {inc[0]}:
                            inv = ast.BinOp(left=ast.Name(id=inc[0], ctx=ast.Load()),
                                            op=ast.Sub() if isinstance(inc[1], ast.Add) else ast.Add(), right=copy.deepcopy(inc[2]))
                            E = _Subst(inc[0], inv).visit(copy.deepcopy(E))
                        else:
                            E = None
            elif isinstance(st, ast.If):
                if v in _names_loaded(st.test):
                    if E is None:
                        raise Fail()
                    sub = _Subst(v, E)
                    st.test = sub.visit(st.test)
                    counter[0] += sub.count
                e1 = run(st.body, v, copy.deepcopy(E) if E is not None else None, counter)
                e2 = run(st.orelse, v, copy.deepcopy(E) if E is not None else None, counter)
                t1, t2 = terminates(st.body), terminates(st.orelse) if st.orelse else False
                if t1 and not t2:
                    E = e2
                elif t2 and not t1:
                    E = e1
                elif e1 is not None and e2 is not None and ast.dump(e1) == ast.dump(e2):
                    E = e1
                else:
                    E = None
            else:
                if any(isinstance(n, ast.Name) and n.id == v for n in ast.walk(st)):
                    raise Fail()
                if E is not None and mutated_names(st) & _names_loaded(E):
                    E = None
        return E

    def visit(block):
        nonlocal changed
        for st in block:
            if isinstance(st, (ast.FunctionDef, ast.ClassDef)):
                continue
            for b in _blocks_of(st):
                visit(b)
        k = 0
        while k < len(block):
            st = block[k]
            if isinstance(st, ast.Assign) and len(st.targets) == 1 and isinstance(st.targets[0], ast.Name):
                v = st.targets[0].id
                if stores.get(v) == 1 and v not in params and loads.get(v, 0) >= 1 and _is_pure_expr(st.value) \
                        and v not in _names_loaded(st.value) and _size(st.value) <= 12 and not isinstance(st.value, (ast.Name, ast.Constant)):
                    # only when an increment of an operand stands between the definition and a use
                    reads = _names_loaded(st.value)
                    incs = any(isinstance(n, ast.AugAssign) and isinstance(n.target, ast.Name) and n.target.id in reads
                               for t in block[k + 1:] for n in ast.walk(t))
                    if incs:
                        trial = copy.deepcopy(block[k + 1:])
                        counter = [0]
                        try:
                            run(trial, v, copy.deepcopy(st.value), counter)
                        except Fail:
                            counter = None
                        if counter is not None and counter[0] == loads.get(v, 0):
                            block[k:] = trial
                            changed = True
                            loads[v] = 0
                            continue
            k += 1
    visit(fn.body)
    if changed:
        ast.fix_missing_locations(fn)
        _invalidate()
    return changed


def _conditional_override_to_select(fn: ast.FunctionDef) -> bool:
    """N33: `x = A` directly followed by `if c: x = F` (no else; c does not read x; A, F side-effect free, A small) is the
    selection `if c: x = F[x := A] else: x = A` - the form that a helper with an early return, a conditional expression
    and an if / else all normalise to."""
    changed = False

    def visit(block):
        nonlocal changed
        for st in block:
            if isinstance(st, (ast.FunctionDef, ast.ClassDef)):
                continue
            for b in _blocks_of(st):
                visit(b)
        k = 0
        while k + 1 < len(block):
            a, b = block[k], block[k + 1]
            if isinstance(a, ast.Assign) and len(a.targets) == 1 and isinstance(a.targets[0], ast.Name) and isinstance(b, ast.If) \
                    and not b.orelse and len(b.body) == 1 and _plain_def(b.body[0], a.targets[0].id):
                x = a.targets[0].id
                A, F = a.value, b.body[0].value
                if x not in _names_loaded(b.test) and x not in _names_loaded(A) and _is_pure_expr(A) and _is_pure_expr(F) \
                        and _size(A) <= 8 and _is_effect_free_expr(b.test) and x in _names_loaded(F):
                    newF = _Subst(x, A).visit(copy.deepcopy(F))
                    sel = ast.If(test=b.test, body=[_fix(ast.Assign(targets=[ast.Name(id=x, ctx=ast.Store())], value=newF), b.body[0])],
                                 orelse=[_fix(ast.Assign(targets=[ast.Name(id=x, ctx=ast.Store())], value=copy.deepcopy(A)), a)])
                    block[k:k + 2] = [_fix(sel, b)]
                    changed = True
                    continue
            k += 1
    visit(fn.body)
    if changed:
        ast.fix_missing_locations(fn)
        _invalidate()
    return changed


def _hoist_common_return(fn: ast.FunctionDef) -> bool:
    """N34: an if / elif / else chain at the end of a block all of whose arms end in the same `return E` is the chain
    without those returns followed by one `return E` (a guard clause that repeats the final return of the function)."""
    changed = False

    def arms_of(node: ast.If):
        arms = [node.body]
        cur = node
        while len(cur.orelse) == 1 and isinstance(cur.orelse[0], ast.If):
            cur = cur.orelse[0]
            arms.append(cur.body)
        if not cur.orelse:
            return None
        arms.append(cur.orelse)
        return arms

    def visit(block):
        nonlocal changed
        for st in block:
            if isinstance(st, (ast.FunctionDef, ast.ClassDef)):
                continue
            for b in _blocks_of(st):
                visit(b)
        if block and isinstance(block[-1], ast.If) and block[-1].orelse:
            arms = arms_of(block[-1])
            if arms and all(len(a) >= 2 and isinstance(a[-1], ast.Return) and a[-1].value is not None for a in arms):
                d = ast.dump(arms[0][-1].value)
                if all(ast.dump(a[-1].value) == d for a in arms):
                    ret = arms[0][-1]
                    for a in arms:
                        del a[-1]
                    block.append(ret)
                    changed = True
    visit(fn.body)
    if changed:
        ast.fix_missing_locations(fn)
        _invalidate()
    return changed


def _drop_self_assign(fn: ast.FunctionDef) -> bool:
    """`x = x` (left behind where an inlined helper returned a parameter it was given) does nothing; neither does an
    expression statement that only names values (`(a, b)` left where the result of an inlined helper was not used)."""
    changed = False

    def only_names(e) -> bool:
        if isinstance(e, (ast.Name, ast.Constant)):
            return not (isinstance(e, ast.Constant) and isinstance(e.value, str))      # (docstrings stay)
        if isinstance(e, (ast.Tuple, ast.List)):
            return all(only_names(x) for x in e.elts)
        return False

    def visit(block):
        nonlocal changed
        for st in block:
            if isinstance(st, (ast.FunctionDef, ast.ClassDef)):
                continue
            for b in _blocks_of(st):
                visit(b)
        keep = [st for st in block if not (isinstance(st, ast.Assign) and len(st.targets) == 1 and isinstance(st.targets[0], ast.Name)
                                           and isinstance(st.value, ast.Name) and st.value.id == st.targets[0].id)
                and not (isinstance(st, ast.Expr) and only_names(st.value))]
        if len(keep) != len(block) and keep:
            block[:] = keep
            changed = True
        # `if c: ... else: x = x` - the else arm does nothing
        for st in block:
            if isinstance(st, ast.If) and len(st.orelse) == 1 and isinstance(st.orelse[0], ast.Assign) \
                    and len(st.orelse[0].targets) == 1 and isinstance(st.orelse[0].targets[0], ast.Name) \
                    and isinstance(st.orelse[0].value, ast.Name) and st.orelse[0].value.id == st.orelse[0].targets[0].id:
                st.orelse = []
                changed = True
    visit(fn.body)
    if changed:
        _invalidate()
    return changed


def _element_loop_to_range(fn: ast.FunctionDef) -> bool:
    """N35: `for x in S[a:]` over a sequence parameter S that the loop does not change, a a non-negative
    literal or `max(0, e)` (a slice would clamp a negative bound, a range would not), x only read in the body and not used
    behind the loop, is `for k in range(a, len(S))` with every `x` read as `S[k]`."""
    params = _fn_params(fn)
    changed = False
    counter = [0]
    stores_count: Dict[str, int] = {}
    for n in ast.walk(fn):
        if isinstance(n, ast.Name) and isinstance(n.ctx, (ast.Store, ast.Del)):
            stores_count[n.id] = stores_count.get(n.id, 0) + 1
    used = {n.id for n in ast.walk(fn) if isinstance(n, ast.Name)}

    def nonneg(e) -> bool:
        if isinstance(e, ast.Constant) and isinstance(e.value, int) and not isinstance(e.value, bool) and e.value >= 0:
            return True
        if isinstance(e, ast.Call) and isinstance(e.func, ast.Name) and e.func.id == 'max' and not e.keywords and len(e.args) == 2:
            return any(isinstance(a, ast.Constant) and isinstance(a.value, int) and a.value >= 0 for a in e.args) \
                and all(_is_pure_expr(a) for a in e.args)
        return False

    def visit(block):
        nonlocal changed
        for st in block:
            if isinstance(st, (ast.FunctionDef, ast.ClassDef)):
                continue
            if isinstance(st, ast.For) and not st.orelse and isinstance(st.target, ast.Name):
                it = st.iter
                S, lo = None, None
                if isinstance(it, ast.Subscript) and isinstance(it.value, ast.Name) and it.value.id in params \
                        and isinstance(it.slice, ast.Slice) and it.slice.upper is None and it.slice.step is None \
                        and it.slice.lower is not None and nonneg(it.slice.lower):
                    S, lo = it.value.id, it.slice.lower
                x = st.target.id
                if S is not None and x != S and stores_count.get(S, 0) == 0 and stores_count.get(x, 0) == 1:
                    # evidence that S is an indexable sequence (not an arbitrary iterable)
                    evid = any((isinstance(n, ast.Subscript) and isinstance(n.value, ast.Name) and n.value.id == S) or
                               (isinstance(n, ast.Call) and isinstance(n.func, ast.Name) and n.func.id == 'len' and len(n.args) == 1
                                and isinstance(n.args[0], ast.Name) and n.args[0].id == S) for n in ast.walk(fn))
                    body_mut = set()
                    for b in st.body:
                        body_mut |= mutated_names(b)
                    nested_scope = any(isinstance(n, (ast.FunctionDef, ast.Lambda, ast.ClassDef)) for b in st.body for n in ast.walk(b))
                    body_nodes = {id(m) for b in st.body for m in ast.walk(b)}
                    used_outside = any(isinstance(n, ast.Name) and n.id == x and isinstance(n.ctx, ast.Load) and id(n) not in body_nodes
                                       for n in ast.walk(fn))
                    lo_reads = _names_loaded(lo)
                    if evid and not ({x, S} & body_mut) and not (lo_reads & body_mut) and not nested_scope and not used_outside:
                        counter[0] += 1
                        k = f"{x}__pos"
                        while k in used:
                            k += '_'
                        used.add(k)
                        elem = ast.Subscript(value=ast.Name(id=S, ctx=ast.Load()), slice=ast.Name(id=k, ctx=ast.Load()), ctx=ast.Load())
                        sub = _Subst(x, elem)
                        st.body = [sub.visit(b) for b in st.body]
                        st.target = ast.Name(id=k, ctx=ast.Store())
                        st.iter = ast.Call(func=ast.Name(id='range', ctx=ast.Load()),
                                           args=[copy.deepcopy(lo), ast.Call(func=ast.Name(id='len', ctx=ast.Load()),
                                                                             args=[ast.Name(id=S, ctx=ast.Load())], keywords=[])],
                                           keywords=[])
                        ast.fix_missing_locations(st)
                        changed = True
            for b in _blocks_of(st):
                visit(b)
    visit(fn.body)
    if changed:
        _invalidate()
    return changed


def _dissolve_selection_list(fn: ast.FunctionDef) -> bool:
    """N37: `L = [f(n) for n in X]` - defined once, f side-effect free, X and what f reads not changed afterwards - that is
    only used as `L[e]`, `len(L)` or iterated (`for v in L` in a loop or a comprehension, v only read) is dissolved:
    `L[e]` is `f(X[e])`, `len(L)` is `len(X)`, `for v in L` is `for v in X` with v read as f(v).  (A list of the selected
    objects kept next to the list of their indices.)"""
    params = _fn_params(fn)
    stores: Dict[str, int] = {}
    for n in ast.walk(fn):
        if isinstance(n, ast.Name) and isinstance(n.ctx, (ast.Store, ast.Del)):
            stores[n.id] = stores.get(n.id, 0) + 1
    par: Dict[int, ast.AST] = {}
    for n in ast.walk(fn):
        for c in ast.iter_child_nodes(n):
            par[id(c)] = n
    all_blocks: List[List[ast.stmt]] = []

    def collect(block):
        all_blocks.append(block)
        for s_ in block:
            if isinstance(s_, (ast.FunctionDef, ast.ClassDef)):
                continue
            for b in _blocks_of(s_):
                collect(b)
    collect(fn.body)
    for blk, k, st in [(b_, k_, s_) for b_ in all_blocks for k_, s_ in enumerate(b_)]:
        if not (isinstance(st, ast.Assign) and len(st.targets) == 1 and isinstance(st.targets[0], ast.Name)
                and isinstance(st.value, ast.ListComp) and len(st.value.generators) == 1):
            continue
        L = st.targets[0].id
        g = st.value.generators[0]
        if stores.get(L) != 1 or L in params or g.ifs or g.is_async or not isinstance(g.target, ast.Name) \
                or not isinstance(g.iter, ast.Name):
            continue
        nvar, X, elt = g.target.id, g.iter.id, st.value.elt
        if not _is_pure_expr(elt) or nvar not in _names_loaded(elt) or _size(elt) > 10:
            continue
        free = (_names_loaded(elt) - {nvar}) | {X}
        # nothing the elements depend on changes behind the definition
        later_mut: Set[str] = set()
        for t in blk[k + 1:]:
            later_mut |= mutated_names(t)
        if free & later_mut or L in later_mut:
            continue
        uses = [n for n in ast.walk(fn) if isinstance(n, ast.Name) and n.id == L and isinstance(n.ctx, ast.Load)]
        if not uses:
            continue
        # every use lies behind the definition in its own block
        behind = {id(n) for t in blk[k + 1:] for n in ast.walk(t)}
        if any(id(u) not in behind for u in uses):
            continue
        plan = []
        okk = True
        for u in uses:
            p = par.get(id(u))
            if isinstance(p, ast.Subscript) and p.value is u and isinstance(p.ctx, ast.Load) and not isinstance(p.slice, ast.Slice):
                plan.append(('elem', p))
            elif isinstance(p, ast.Call) and isinstance(p.func, ast.Name) and p.func.id == 'len' and len(p.args) == 1 and p.args[0] is u:
                plan.append(('len', u))
            elif isinstance(p, ast.comprehension) and p.iter is u and isinstance(p.target, ast.Name) and p.target.id not in (nvar, L, X):
                plan.append(('gen', p))
            elif isinstance(p, ast.For) and p.iter is u and isinstance(p.target, ast.Name) and not p.orelse \
                    and p.target.id not in (L, X) and stores.get(p.target.id) == 1 \
                    and not any(p.target.id in mutated_names(b) for b in p.body):
                plan.append(('for', p))
            else:
                okk = False
                break
        if not okk:
            continue

        def f_of(arg: ast.expr) -> ast.expr:
            return _Subst(nvar, arg).visit(copy.deepcopy(elt))
        for kind, node in plan:
            if kind == 'elem':
                new = f_of(ast.Subscript(value=ast.Name(id=X, ctx=ast.Load()), slice=node.slice, ctx=ast.Load()))
                pp = par.get(id(node))
                for fld, val in ast.iter_fields(pp):
                    if val is node:
                        setattr(pp, fld, new)
                    elif isinstance(val, list):
                        for i_, v_ in enumerate(val):
                            if v_ is node:
                                val[i_] = new
            elif kind == 'len':
                node.id = X
            elif kind == 'gen':
                comp = par.get(id(node))
                v = node.target.id
                repl = f_of(ast.Name(id=v, ctx=ast.Load()))
                node.iter = ast.Name(id=X, ctx=ast.Load())
                sub = _Subst(v, repl)
                if hasattr(comp, 'elt'):
                    comp.elt = sub.visit(comp.elt)
                node.ifs = [sub.visit(c_) for c_ in node.ifs]
            elif kind == 'for':
                v = node.target.id
                repl = f_of(ast.Name(id=v, ctx=ast.Load()))
                node.iter = ast.Name(id=X, ctx=ast.Load())
                sub = _Subst(v, repl)
                node.body = [sub.visit(b) for b in node.body]
        del blk[k]
        ast.fix_missing_locations(fn)
        _invalidate()
        return True
    return False


def _drop_zero_store_into_fresh_cell(fn: ast.FunctionDef) -> bool:
    """N38: A = np.zeros(..) at the top of the function; the one loop that fills it stores only at `A[c]` / `A[c - k]`
    (k > 0) where c is a counter that is initialised before the loop and only ever incremented by 1, exactly once on
    every path through the loop body and in front of the stores of that path.  Then cell c has never been written when
    the counter reaches c, and `A[c] = 0` - with no other store to A[c] on the same path - stores what is there already."""
    changed = False
    body = fn.body
    allocs: Dict[str, int] = {}
    for k, st in enumerate(body):
        if isinstance(st, ast.Assign) and len(st.targets) == 1 and isinstance(st.targets[0], ast.Name) and isinstance(st.value, ast.Call) \
                and (ast.unparse(st.value.func) in ('np.zeros', 'numpy.zeros')) and len(st.value.args) == 1 and not st.value.keywords:
            allocs[st.targets[0].id] = k
    if not allocs:
        return False
    loops = [(k, st) for k, st in enumerate(body) if isinstance(st, (ast.While, ast.For))]

    def is_inc(st, c):
        return isinstance(st, ast.AugAssign) and isinstance(st.target, ast.Name) and st.target.id == c and isinstance(st.op, ast.Add) \
            and isinstance(st.value, ast.Constant) and st.value.value == 1

    def stores_to(node, A):
        return [n for n in ast.walk(node) if isinstance(n, ast.Subscript) and isinstance(n.ctx, ast.Store)
                and isinstance(n.value, ast.Name) and n.value.id == A]

    for A, ka in allocs.items():
        holders = [(k, L) for k, L in loops if k > ka and stores_to(L, A)]
        if len(holders) != 1:
            continue
        kl, L = holders[0]
        if isinstance(L, ast.For) or L.orelse:
            continue
        # nothing touches A between its allocation and the end of the loop except element stores / element reads
        okk = True
        for st in body[ka + 1:kl + 1]:
            for n in ast.walk(st):
                if isinstance(n, ast.Name) and n.id == A:
                    p_ok = False
                    for m in ast.walk(st):
                        if isinstance(m, ast.Subscript) and m.value is n and not isinstance(m.slice, ast.Slice):
                            p_ok = True
                    if not p_ok:
                        okk = False
        if not okk:
            continue
        sts = stores_to(L, A)
        idx_names = set()
        for s_ in sts:
            sl = s_.slice
            if isinstance(sl, ast.Name):
                idx_names.add(sl.id)
            elif isinstance(sl, ast.BinOp) and isinstance(sl.op, ast.Sub) and isinstance(sl.left, ast.Name) \
                    and isinstance(sl.right, ast.Constant) and isinstance(sl.right.value, int) and sl.right.value > 0:
                idx_names.add(sl.left.id)
            else:
                idx_names.add('?')
        if len(idx_names) != 1 or '?' in idx_names:
            continue
        c = next(iter(idx_names))
        # the counter: plain initialisation(s) in front of the loop, increments by one inside it, nothing else
        good_c = c not in _fn_params(fn)
        for n in ast.walk(fn):
            if isinstance(n, ast.Name) and n.id == c and isinstance(n.ctx, (ast.Store, ast.Del)):
                holder = None
                for k2, st in enumerate(body):
                    if any(m is n for m in ast.walk(st)):
                        holder = (k2, st)
                if holder is None:
                    good_c = False
                elif holder[0] < kl:
                    good_c = good_c and isinstance(holder[1], ast.Assign) and holder[1] in body
                elif holder[0] == kl:
                    inc_ok = any(is_inc(m, c) and m.target is n for m in ast.walk(L))
                    good_c = good_c and inc_ok
                else:
                    good_c = False
        if not good_c:
            continue
        # paths through the loop body: `fresh` - the counter was incremented on this path and nothing was stored into A[c]
        # since (cells above every earlier value of the counter have never been written)
        verdicts: Dict[int, List[bool]] = {}
        where: Dict[int, Tuple[List[ast.stmt], ast.stmt]] = {}
        fine = [True]

        def walk(block, fresh_states):
            states = set(fresh_states)
            for st in block:
                new_states = set()
                for fresh in states:
                    if is_inc(st, c):
                        new_states.add(True)
                    elif isinstance(st, ast.If):
                        new_states |= walk(st.body, {fresh})
                        new_states |= walk(st.orelse, {fresh})
                    elif isinstance(st, (ast.While, ast.For, ast.Try, ast.With)):
                        if stores_to(st, A) or any(is_inc(m, c) for m in ast.walk(st)):
                            fine[0] = False
                        new_states.add(fresh)
                    else:
                        ss = stores_to(st, A)
                        at_c = [x for x in ss if isinstance(x.slice, ast.Name)]
                        if at_c:
                            is_zero = isinstance(st, ast.Assign) and len(st.targets) == 1 and st.targets[0] is at_c[0] \
                                and isinstance(st.value, ast.Constant) and st.value.value in (0, 0.0) \
                                and not isinstance(st.value.value, bool)
                            if is_zero:
                                verdicts.setdefault(id(st), []).append(fresh)
                                where[id(st)] = (block, st)
                                new_states.add(fresh)          # the cell holds 0 either way
                            else:
                                new_states.add(False)
                        else:
                            new_states.add(fresh)
                states = new_states
            return states
        walk(L.body, {False})
        if not fine[0]:
            continue
        for key, vs in verdicts.items():
            b_, st = where[key]
            if all(vs) and st in b_ and len(b_) > 1:
                b_.remove(st)
                changed = True
    if changed:
        ast.fix_missing_locations(fn)
        _invalidate()
    return changed


def _repack_indexed_result(fn: ast.FunctionDef, arity_of) -> bool:
    """N39: `r = call(...)` followed directly by `x0 = r[0]`, `x1 = r[1]`, ... (literal indices in order, starting at 0),
    r used nowhere else, is the unpacking `x0, x1, ... = call(...)`.  All components must be taken, or the callee's arity
    must be known (`arity_of(call)`: every return of the callee is a tuple of that length) - the missing ones then get
    fresh names nobody reads."""
    changed = False
    loads: Dict[str, int] = {}
    stores: Dict[str, int] = {}
    for n in ast.walk(fn):
        if isinstance(n, ast.Name):
            if isinstance(n.ctx, ast.Load):
                loads[n.id] = loads.get(n.id, 0) + 1
            else:
                stores[n.id] = stores.get(n.id, 0) + 1
    used = set(loads) | set(stores)

    def visit(block):
        nonlocal changed
        for st in block:
            if isinstance(st, (ast.FunctionDef, ast.ClassDef)):
                continue
            for b in _blocks_of(st):
                visit(b)
        k = 0
        while k < len(block):
            st = block[k]
            if isinstance(st, ast.Assign) and len(st.targets) == 1 and isinstance(st.targets[0], ast.Name) and isinstance(st.value, ast.Call):
                r = st.targets[0].id
                if stores.get(r) == 1 and r not in _fn_params(fn):
                    takes = []
                    targets_ast: Dict[str, ast.expr] = {}
                    q = k + 1
                    while q < len(block):
                        t = block[q]
                        if isinstance(t, ast.Assign) and len(t.targets) == 1 \
                                and (isinstance(t.targets[0], ast.Name) or
                                     (isinstance(t.targets[0], ast.Attribute) and isinstance(t.targets[0].value, ast.Name)
                                      and t.targets[0].value.id != r)) \
                                and isinstance(t.value, ast.Subscript) and isinstance(t.value.value, ast.Name) and t.value.value.id == r \
                                and isinstance(t.value.slice, ast.Constant) and isinstance(t.value.slice.value, int) \
                                and not isinstance(t.value.slice.value, bool):
                            takes.append((t.value.slice.value, ast.unparse(t.targets[0])))
                            targets_ast[ast.unparse(t.targets[0])] = t.targets[0]
                            q += 1
                        else:
                            break
                    idxs = [i for i, _ in takes]
                    names = [n_ for _, n_ in takes]
                    if takes and loads.get(r, 0) == len(takes) and idxs == sorted(set(idxs)) and idxs[0] >= 0 \
                            and len(set(names)) == len(names) and r not in names \
                            and not (set(names) & _names_loaded(st.value) - set(names) and False):
                        n_known = arity_of(st.value)
                        full = idxs == list(range(len(idxs)))
                        arity = n_known if n_known is not None else (len(idxs) if full and len(idxs) >= 2 else None)
                        if arity is not None and arity >= max(idxs) + 1 and arity >= 2:
                            elts = []
                            by = dict(takes)
                            for i in range(arity):
                                if i in by:
                                    elts.append(copy.deepcopy(targets_ast[by[i]]))
                                else:
                                    nm = f"{r}__unused{i}"
                                    while nm in used:
                                        nm += '_'
                                    used.add(nm)
                                    elts.append(ast.Name(id=nm, ctx=ast.Store()))
                            new = _fix(ast.Assign(targets=[ast.Tuple(elts=elts, ctx=ast.Store())], value=st.value), st)
                            block[k:q] = [new]
                            changed = True
            k += 1
    visit(fn.body)
    if changed:
        ast.fix_missing_locations(fn)
        _invalidate()
    return changed


def _append_loops_to_comprehension(fn: ast.FunctionDef) -> bool:
    """N40: `L = []` directly followed by a nest of `for` loops (optionally `if` filters) whose innermost statement is
    `L.append(E)`, the loop bodies holding besides that only plain definitions of temporaries that E / the inner
    iterables use, L not mentioned anywhere else in the nest: `L = [E for ... in ... for ... in ... if ...]` with the
    temporaries substituted."""
    changed = False

    def build(loop: ast.For, L: str, subst_env: List[Tuple[str, ast.expr]]):
        """returns (generators, elt) or None"""
        if loop.orelse or not isinstance(loop.target, (ast.Name, ast.Tuple)):
            return None

        def sub(e):
            e = copy.deepcopy(e)
            for v, E in reversed(subst_env):
                e = _Subst(v, E).visit(e)
            return e
        gens = [ast.comprehension(target=copy.deepcopy(loop.target), iter=sub(loop.iter), ifs=[], is_async=0)]
        body = list(loop.body)
        env = list(subst_env)
        tnames = {n.id for n in ast.walk(loop.target) if isinstance(n, ast.Name)}
        while body:
            st = body[0]
            if isinstance(st, ast.Assign) and len(st.targets) == 1 and isinstance(st.targets[0], ast.Name) and len(body) > 1 \
                    and _is_pure_expr(st.value) and st.targets[0].id != L and st.targets[0].id not in tnames:
                e = copy.deepcopy(st.value)
                for v, E in reversed(env):
                    e = _Subst(v, E).visit(e)
                env.append((st.targets[0].id, e))
                body = body[1:]
                continue
            break
        if len(body) != 1:
            return None
        st = body[0]

        def sub2(e):
            e = copy.deepcopy(e)
            for v, E in reversed(env):
                e = _Subst(v, E).visit(e)
            return e
        if isinstance(st, ast.Expr) and isinstance(st.value, ast.Call) and isinstance(st.value.func, ast.Attribute) \
                and st.value.func.attr == 'append' and isinstance(st.value.func.value, ast.Name) and st.value.func.value.id == L \
                and len(st.value.args) == 1 and not st.value.keywords:
            return gens, sub2(st.value.args[0]), env
        if isinstance(st, ast.If) and not st.orelse and len(st.body) == 1:
            inner = st.body[0]
            if isinstance(inner, ast.Expr) and isinstance(inner.value, ast.Call) and isinstance(inner.value.func, ast.Attribute) \
                    and inner.value.func.attr == 'append' and isinstance(inner.value.func.value, ast.Name) \
                    and inner.value.func.value.id == L and len(inner.value.args) == 1 and not inner.value.keywords:
                gens[-1].ifs.append(sub2(st.test))
                return gens, sub2(inner.value.args[0]), env
            return None
        if isinstance(st, ast.For):
            r = build(st, L, env)
            if r is None:
                return None
            g2, elt, env2 = r
            return gens + g2, elt, env2
        return None

    def visit(block):
        nonlocal changed
        for st in block:
            if isinstance(st, (ast.FunctionDef, ast.ClassDef)):
                continue
            for b in _blocks_of(st):
                visit(b)
        # (the empty list may be initialised further up in the block, as long as nothing in between mentions it)
        k = 0
        moved = set()
        while k + 1 < len(block):
            a = block[k]
            if isinstance(a, ast.Assign) and len(a.targets) == 1 and isinstance(a.targets[0], ast.Name) and id(a) not in moved \
                    and isinstance(a.value, ast.List) and not a.value.elts and not isinstance(block[k + 1], ast.For):
                moved.add(id(a))
                L0 = a.targets[0].id
                j = k + 1
                while j < len(block) and not any(isinstance(n, ast.Name) and n.id == L0 for n in ast.walk(block[j])) \
                        and not isinstance(block[j], (ast.FunctionDef, ast.ClassDef)):
                    j += 1
                if j < len(block) and isinstance(block[j], ast.For) and j > k + 1 \
                        and sum(1 for n in ast.walk(block[j]) if isinstance(n, ast.Name) and n.id == L0) == 1 \
                        and build(block[j], L0, []) is not None:
                    block.insert(j - 1, block.pop(k))
                    continue
            k += 1
        k = 0
        while k + 1 < len(block):
            a, b = block[k], block[k + 1]
            if isinstance(a, ast.Assign) and len(a.targets) == 1 and isinstance(a.targets[0], ast.Name) \
                    and isinstance(a.value, ast.List) and not a.value.elts and isinstance(b, ast.For):
                L = a.targets[0].id
                mentions = sum(1 for n in ast.walk(b) if isinstance(n, ast.Name) and n.id == L)
                r = build(b, L, []) if mentions == 1 else None
                if r is not None:
                    gens, elt, env = r
                    # the temporaries and loop variables must not be read behind the nest
                    local_names = {v for v, _ in env} | {n.id for g in gens for n in ast.walk(g.target) if isinstance(n, ast.Name)}
                    nest_nodes = {id(n) for n in ast.walk(b)}
                    # (a comprehension elsewhere that binds the same name has a variable of its own)
                    for c_ in ast.walk(fn):
                        if isinstance(c_, (ast.ListComp, ast.SetComp, ast.GeneratorExp, ast.DictComp)):
                            bound_ = {n.id for g in c_.generators for n in ast.walk(g.target) if isinstance(n, ast.Name)}
                            for g_i, g in enumerate(c_.generators):
                                own = [c_.elt] if hasattr(c_, 'elt') else [c_.key, c_.value]
                                scope_nodes = own + [x for g2 in c_.generators for x in g2.ifs] + [g2.iter for g2 in c_.generators[1:]]
                            for sn in scope_nodes:
                                nest_nodes |= {id(n) for n in ast.walk(sn) if isinstance(n, ast.Name) and n.id in bound_}
                    leaked = any(isinstance(n, ast.Name) and n.id in local_names and id(n) not in nest_nodes and isinstance(n.ctx, ast.Load)
                                 for n in ast.walk(fn))
                    if not leaked:
                        new = _fix(ast.Assign(targets=[ast.Name(id=L, ctx=ast.Store())],
                                              value=ast.ListComp(elt=elt, generators=gens)), a)
                        block[k:k + 2] = [new]
                        changed = True
                        continue
            k += 1
    visit(fn.body)
    if changed:
        ast.fix_missing_locations(fn)
        _invalidate()
    return changed


def _merge_nested_ifs(fn: ast.FunctionDef) -> bool:
    """N41: `if A: if B: S` (neither has an else) is `if A and B: S`."""
    changed = False

    def visit(block):
        nonlocal changed
        for st in block:
            if isinstance(st, (ast.FunctionDef, ast.ClassDef)):
                continue
            for b in _blocks_of(st):
                visit(b)
            while isinstance(st, ast.If) and not st.orelse and len(st.body) == 1 and isinstance(st.body[0], ast.If) \
                    and not st.body[0].orelse:
                inner = st.body[0]
                vals = (st.test.values if isinstance(st.test, ast.BoolOp) and isinstance(st.test.op, ast.And) else [st.test]) + \
                       (inner.test.values if isinstance(inner.test, ast.BoolOp) and isinstance(inner.test.op, ast.And) else [inner.test])
                st.test = ast.BoolOp(op=ast.And(), values=vals)
                st.body = inner.body
                ast.fix_missing_locations(st)
                changed = True
    visit(fn.body)
    if changed:
        _invalidate()
    return changed


def _dissolve_name_bundles(fn: ast.FunctionDef) -> bool:
    """N43: a local bound once to a literal tuple / list of plain names that are themselves never re-bound afterwards
    (`new_arrays = (x_new, y_new, mp_new)`) stands for that tuple where it is iterated (`for v in B`, `zip(B, ...)`) or
    indexed with a literal (`B[0]`); `for a, b in zip((p, q), (x, y))` over literal tuples of equal length is the body once
    per position.  A bundle that is used in no other way disappears."""
    changed = False
    stores: Dict[str, int] = {}
    for n in ast.walk(fn):
        if isinstance(n, ast.Name) and isinstance(n.ctx, (ast.Store, ast.Del)):
            stores[n.id] = stores.get(n.id, 0) + 1
    params = _fn_params(fn)
    bundles: Dict[str, ast.Assign] = {}
    for n in ast.walk(fn):
        if isinstance(n, ast.Assign) and len(n.targets) == 1 and isinstance(n.targets[0], ast.Name) \
                and isinstance(n.value, (ast.Tuple, ast.List)) and 1 <= len(n.value.elts) <= 4 \
                and all(isinstance(e, ast.Name) for e in n.value.elts) and stores.get(n.targets[0].id) == 1 \
                and n.targets[0].id not in params \
                and all((stores.get(e.id, 0) <= 1 and e.id not in params) or (stores.get(e.id, 0) == 0 and e.id in params)
                        for e in n.value.elts):
            bundles[n.targets[0].id] = n
    par: Dict[int, ast.AST] = {}
    for n in ast.walk(fn):
        for c in ast.iter_child_nodes(n):
            par[id(c)] = n

    def lit(name):
        return copy.deepcopy(bundles[name].value)
    for n in list(ast.walk(fn)):
        if isinstance(n, ast.Name) and n.id in bundles and isinstance(n.ctx, ast.Load):
            p = par.get(id(n))
            if isinstance(p, ast.For) and p.iter is n:
                p.iter = lit(n.id)
                changed = True
            elif isinstance(p, ast.Call) and isinstance(p.func, ast.Name) and p.func.id == 'zip' and n in p.args:
                p.args[p.args.index(n)] = lit(n.id)
                changed = True
            elif isinstance(p, ast.Subscript) and p.value is n and isinstance(p.slice, ast.Constant) and isinstance(p.slice.value, int) \
                    and not isinstance(p.slice.value, bool) and -len(bundles[n.id].value.elts) <= p.slice.value < len(bundles[n.id].value.elts) \
                    and isinstance(p.ctx, ast.Load):
                new = ast.Name(id=bundles[n.id].value.elts[p.slice.value].id, ctx=ast.Load())
                pp = par.get(id(p))
                for fld, val in ast.iter_fields(pp):
                    if val is p:
                        setattr(pp, fld, new)
                    elif isinstance(val, list):
                        for i_, v_ in enumerate(val):
                            if v_ is p:
                                val[i_] = new
                par[id(new)] = pp
                changed = True

    def visit(block):
        nonlocal changed
        for st in block:
            if isinstance(st, (ast.FunctionDef, ast.ClassDef)):
                continue
            for b in _blocks_of(st):
                visit(b)
        k = 0
        while k < len(block):
            st = block[k]
            if isinstance(st, ast.For) and not st.orelse and isinstance(st.target, ast.Tuple) and isinstance(st.iter, ast.Call) \
                    and isinstance(st.iter.func, ast.Name) and st.iter.func.id == 'zip' and not st.iter.keywords \
                    and len(st.iter.args) == len(st.target.elts) and all(isinstance(e, ast.Name) for e in st.target.elts) \
                    and all(isinstance(a, (ast.Tuple, ast.List)) and all(isinstance(e, ast.Name) for e in a.elts) for a in st.iter.args) \
                    and len({len(a.elts) for a in st.iter.args}) == 1 and 1 <= len(st.iter.args[0].elts) <= 4:
                vs = [e.id for e in st.target.elts]
                body_ok = not any(isinstance(n, (ast.Break, ast.Continue, ast.FunctionDef, ast.Lambda, ast.ClassDef, ast.Return))
                                  for b in st.body for n in ast.walk(b))
                writes = any(isinstance(n, ast.Name) and n.id in vs and isinstance(n.ctx, ast.Store) for b in st.body for n in ast.walk(b))
                used_after = any(isinstance(n, ast.Name) and n.id in vs for t in block[k + 1:] for n in ast.walk(t))
                if body_ok and not writes and not used_after and len(set(vs)) == len(vs):
                    out = []
                    for pos in range(len(st.iter.args[0].elts)):
                        m = {v: a.elts[pos].id for v, a in zip(vs, st.iter.args)}
                        for b in st.body:
                            nb = copy.deepcopy(b)

                            class R(ast.NodeTransformer):
                                def visit_Name(self, node):
                                    if node.id in m:
                                        return ast.copy_location(ast.Name(id=m[node.id], ctx=node.ctx), node)
                                    return node
                            out.append(R().visit(nb))
                    block[k:k + 1] = out
                    changed = True
                    k += len(out)
                    continue
            k += 1
    visit(fn.body)
    # bundles nobody reads any more
    for name, asg in bundles.items():
        if not any(isinstance(n, ast.Name) and n.id == name and isinstance(n.ctx, ast.Load) for n in ast.walk(fn)):
            def drop(block):
                for i_, s_ in enumerate(block):
                    if s_ is asg and len(block) > 1:
                        del block[i_]
                        return True
                    if not isinstance(s_, (ast.FunctionDef, ast.ClassDef)):
                        for b in _blocks_of(s_):
                            if drop(b):
                                return True
                return False
            if drop(fn.body):
                changed = True
    if changed:
        ast.fix_missing_locations(fn)
        _invalidate()
    return changed


def _unroll_loop_over_names(fn: ast.FunctionDef) -> bool:
    """N42: `for v in (a, b):` over a literal tuple / list of at most four plain names, v only read in a straight-line
    body (no break / continue / nested definitions), is the body once per name, in order."""
    changed = False

    def visit(block):
        nonlocal changed
        for st in block:
            if isinstance(st, (ast.FunctionDef, ast.ClassDef)):
                continue
            for b in _blocks_of(st):
                visit(b)
        k = 0
        while k < len(block):
            st = block[k]
            if isinstance(st, ast.For) and not st.orelse and isinstance(st.target, ast.Name) and isinstance(st.iter, (ast.Tuple, ast.List)) \
                    and 1 <= len(st.iter.elts) <= 4 and all(isinstance(e, ast.Name) for e in st.iter.elts):
                v = st.target.id
                body_ok = not any(isinstance(n, (ast.Break, ast.Continue, ast.FunctionDef, ast.Lambda, ast.ClassDef, ast.Return))
                                  for b in st.body for n in ast.walk(b))
                writes_v = any(v in mutated_names(b, calls=False) and any(isinstance(n, ast.Name) and n.id == v and isinstance(n.ctx, ast.Store)
                                                                         for n in ast.walk(b)) for b in st.body)
                used_after = any(isinstance(n, ast.Name) and n.id == v for t in block[k + 1:] for n in ast.walk(t))
                names = [e.id for e in st.iter.elts]
                rebinds = any(isinstance(n, ast.Name) and n.id in names and isinstance(n.ctx, ast.Store) for b in st.body for n in ast.walk(b))
                if body_ok and not writes_v and not used_after and not rebinds and v not in names:
                    out = []
                    for nm in names:
                        for b in st.body:
                            nb = copy.deepcopy(b)

                            class R(ast.NodeTransformer):
                                def visit_Name(self, node):
                                    if node.id == v:
                                        return ast.copy_location(ast.Name(id=nm, ctx=node.ctx), node)
                                    return node
                            out.append(R().visit(nb))
                    block[k:k + 1] = out
                    changed = True
                    k += len(out)
                    continue
            k += 1
    visit(fn.body)
    if changed:
        ast.fix_missing_locations(fn)
        _invalidate()
    return changed


def _expand_small_slice_store(fn: ast.FunctionDef) -> bool:
    """N47: `A[a:b] = c` with literal bounds 0 <= a < b <= a + 4 and a numeric literal c is the element stores `A[a] = c` ...
    `A[b-1] = c` (assumption: the array has at least b elements, as the element stores it replaces require)."""
    changed = False

    def visit(block):
        nonlocal changed
        for st in block:
            if isinstance(st, (ast.FunctionDef, ast.ClassDef)):
                continue
            for b in _blocks_of(st):
                visit(b)
        k = 0
        while k < len(block):
            st = block[k]
            if isinstance(st, ast.Assign) and len(st.targets) == 1 and isinstance(st.targets[0], ast.Subscript) \
                    and isinstance(st.targets[0].value, ast.Name) and isinstance(st.targets[0].slice, ast.Slice) \
                    and st.targets[0].slice.step is None and _is_num_literal(st.value):
                sl = st.targets[0].slice
                lo = 0 if sl.lower is None else (sl.lower.value if isinstance(sl.lower, ast.Constant) and isinstance(sl.lower.value, int) else None)
                hi = sl.upper.value if isinstance(sl.upper, ast.Constant) and isinstance(sl.upper.value, int) else None
                if lo is not None and hi is not None and 0 <= lo < hi <= lo + 4:
                    new = [_fix(ast.Assign(targets=[ast.Subscript(value=ast.Name(id=st.targets[0].value.id, ctx=ast.Load()),
                                                                  slice=ast.Constant(value=i_), ctx=ast.Store())],
                                           value=copy.deepcopy(st.value)), st) for i_ in range(lo, hi)]
                    block[k:k + 1] = new
                    changed = True
                    k += len(new)
                    continue
            k += 1
    visit(fn.body)
    if changed:
        ast.fix_missing_locations(fn)
        _invalidate()
    return changed


def _split_chained_assign(fn: ast.FunctionDef) -> bool:
    """`a = b = E` with E side-effect free and the targets plain names is `a = E; b = E`."""
    changed = False

    def visit(block):
        nonlocal changed
        k = 0
        while k < len(block):
            st = block[k]
            if isinstance(st, ast.Assign) and len(st.targets) > 1 and all(isinstance(t, ast.Name) for t in st.targets) \
                    and _is_pure_expr(st.value) and not ({t.id for t in st.targets} & _names_loaded(st.value)):
                block[k:k + 1] = [_fix(ast.Assign(targets=[t], value=copy.deepcopy(st.value)), st) for t in st.targets]
                changed = True
                k += len(st.targets)
                continue
            # `c[n] = c[n-1] = 1`: element stores of one literal / one name, left to right; no index reads a stored array
            if isinstance(st, ast.Assign) and len(st.targets) > 1 \
                    and all(isinstance(t, ast.Name) or (isinstance(t, ast.Subscript) and isinstance(t.value, ast.Name)
                                                        and _is_pure_expr(t.slice)) for t in st.targets) \
                    and (_is_num_literal(st.value) or isinstance(st.value, ast.Name)):
                bases = {_base_name(t) for t in st.targets}
                reads = set(_names_loaded(st.value))
                for t in st.targets:
                    if isinstance(t, ast.Subscript):
                        reads |= _names_loaded(t.slice)
                if not (bases & reads):
                    block[k:k + 1] = [_fix(ast.Assign(targets=[t], value=copy.deepcopy(st.value)), st) for t in st.targets]
                    changed = True
                    k += len(st.targets)
                    continue
            if not isinstance(st, (ast.FunctionDef, ast.ClassDef)):
                for b in _blocks_of(st):
                    visit(b)
            k += 1
    visit(fn.body)
    if changed:
        _invalidate()
    return changed


def _sink_update_into_defs(fn: ast.FunctionDef) -> bool:
    """N23: `x = A` ... `if c: x = B` ... `x = F[x]` in one block, F a side-effect free expression that reads x once and
    whose other operands nothing in between modifies, the statements in between touching x only in those definitions:
    the update is applied where the value is defined - `x = F[A]` ... `if c: x = F[B]`.  (A value that is scaled where
    it is produced, or once after all the cases, is the same value.)"""
    changed = False
    stores_all: Dict[str, int] = {}
    for n_ in ast.walk(fn):
        if isinstance(n_, ast.Name) and isinstance(n_.ctx, (ast.Store, ast.Del)):
            stores_all[n_.id] = stores_all.get(n_.id, 0) + 1

    def subst(F: ast.expr, x: str, E: ast.expr) -> ast.expr:
        class T(ast.NodeTransformer):
            def visit_Name(self, node):
                if node.id == x and isinstance(node.ctx, ast.Load):
                    return copy.deepcopy(E)
                return node
        return T().visit(copy.deepcopy(F))

    def visit(block):
        nonlocal changed
        for st in block:
            if not isinstance(st, (ast.FunctionDef, ast.ClassDef)):
                for b in _blocks_of(st):
                    visit(b)
        k = 0
        while k < len(block):
            st = block[k]
            y_ = None
            if isinstance(st, ast.Assign) and len(st.targets) == 1 and isinstance(st.targets[0], ast.Name) \
                    and not isinstance(st.value, ast.Name) and _is_pure_expr(st.value) \
                    and _count_loads(st.value, st.targets[0].id) == 0:
                # `y = F[x]` where x is a generated local (an inlined helper's variable) that nothing reads afterwards and y
                # does not occur before: x continues under the name y, the update is a self-update of y
                cands_ = [n_ for n_ in _names_loaded(st.value) if '__inl' in n_ and _count_loads(st.value, n_) == 1]
                if len(cands_) == 1:
                    xg, yv = cands_[0], st.targets[0].id
                    later = any(isinstance(n_, ast.Name) and n_.id == xg for t_ in block[k + 1:] for n_ in ast.walk(t_))
                    earlier_y = any(isinstance(n_, ast.Name) and n_.id == yv for t_ in block[:k] for n_ in ast.walk(t_))
                    elsewhere = sum(1 for n_ in ast.walk(fn) if isinstance(n_, ast.Name) and n_.id == xg) \
                        - sum(1 for t_ in block[:k + 1] for n_ in ast.walk(t_) if isinstance(n_, ast.Name) and n_.id == xg)
                    if not later and not earlier_y and elsewhere == 0 and stores_all.get(yv, 0) == 1:
                        y_ = (xg, yv)
            if y_ is not None or (isinstance(st, ast.Assign) and len(st.targets) == 1 and isinstance(st.targets[0], ast.Name)
                                  and not isinstance(st.value, ast.Name) and _is_pure_expr(st.value)
                                  and _count_loads(st.value, st.targets[0].id) == 1):
                x, F = st.targets[0].id, st.value
                if y_ is not None:
                    x = y_[0]
                others = _names_loaded(F) - {x}
                defs = []
                q = k - 1
                ok_ = True
                found_plain = False
                while q >= 0:
                    t = block[q]
                    if _plain_def(t, x) and x not in _names_loaded(t.value):
                        defs.append(t)
                        found_plain = True
                        break
                    if isinstance(t, ast.If) and not t.orelse and len(t.body) == 1 and _plain_def(t.body[0], x) \
                            and x not in _names_loaded(t.body[0].value) and x not in _names_loaded(t.test):
                        defs.append(t.body[0])
                    elif any(isinstance(n, ast.Name) and n.id == x for n in ast.walk(t)):
                        ok_ = False
                        break
                    if mutated_names(t) & others:
                        ok_ = False
                        break
                    q -= 1
                if ok_ and found_plain and len(defs) >= 2:
                    for d in defs:
                        d.value = subst(F, x, d.value)
                        if y_ is not None:
                            d.targets = [ast.Name(id=y_[1], ctx=ast.Store())]
                    del block[k]
                    changed = True
                    continue
            k += 1
    visit(fn.body)
    if changed:
        ast.fix_missing_locations(fn)
        _invalidate()
    return changed


def _reuse_values(fn: ast.FunctionDef) -> bool:
    """N22: after `v = E` (E side-effect free and more than a name or a constant) the following simple statements of the
    same block read v where they spell E out again, as long as neither v nor an operand of E is modified in between.
    (Whether a value that a variable holds anyway is read from the variable or computed again is one program; the
    substitution of temporaries, N6, is the opposite direction and wins for variables that are dead afterwards.)"""
    changed = False

    def replace_in(node: ast.AST, dump_e: str, v: str) -> bool:
        done = False
        for field, val in ast.iter_fields(node):
            if isinstance(val, ast.expr):
                if isinstance(getattr(val, 'ctx', ast.Load()), ast.Load) and ast.dump(val) == dump_e:
                    setattr(node, field, ast.copy_location(ast.Name(id=v, ctx=ast.Load()), val))
                    done = True
                elif not isinstance(val, (ast.Lambda, ast.ListComp, ast.SetComp, ast.DictComp, ast.GeneratorExp)):
                    done = replace_in(val, dump_e, v) or done
            elif isinstance(val, list):
                for i, x in enumerate(val):
                    if isinstance(x, ast.expr):
                        if isinstance(getattr(x, 'ctx', ast.Load()), ast.Load) and ast.dump(x) == dump_e:
                            val[i] = ast.copy_location(ast.Name(id=v, ctx=ast.Load()), x)
                            done = True
                        elif not isinstance(x, (ast.Lambda, ast.ListComp, ast.SetComp, ast.DictComp, ast.GeneratorExp)):
                            done = replace_in(x, dump_e, v) or done
                    elif isinstance(x, ast.keyword):
                        done = replace_in(x, dump_e, v) or done
        return done

    def visit(block):
        nonlocal changed
        for st in block:
            if isinstance(st, (ast.FunctionDef, ast.ClassDef)):
                continue
            for b in _blocks_of(st):
                visit(b)
        for k, s_ in enumerate(block):
            if not (isinstance(s_, ast.Assign) and len(s_.targets) == 1 and isinstance(s_.targets[0], ast.Name)):
                continue
            v, E = s_.targets[0].id, s_.value
            if isinstance(E, (ast.Name, ast.Constant)) or not _is_pure_expr(E) or _size(E) < 4 or v in _names_loaded(E):
                continue
            watch = _names_loaded(E) | {v}
            dump_e = ast.dump(E)
            # statements in front that spell E out and commute with the definition: the definition moves before them
            p_ = k
            first_user = None
            while p_ > 0:
                t = block[p_ - 1]
                if not isinstance(t, (ast.Assign, ast.AugAssign, ast.Expr)) or (mutated_names(t) & watch) \
                        or any(isinstance(n, ast.Name) and n.id == v for n in ast.walk(t)):
                    break
                p_ -= 1
                if any(ast.dump(n) == dump_e for n in ast.walk(t) if isinstance(n, ast.expr)):
                    first_user = p_
            if first_user is not None:
                block.insert(first_user, block.pop(k))
                changed = True
                k = first_user
            for t in block[k + 1:]:
                if not isinstance(t, (ast.Assign, ast.AugAssign, ast.Expr, ast.Return)):
                    break
                target_holder = None
                if isinstance(t, ast.Assign):
                    # only the value is an evaluation; targets are handled when they are subscripts (their index expressions)
                    if replace_in(ast.Expr(value=t.value), dump_e, v) if False else False:
                        pass
                    holder = ast.Expr(value=t.value)
                    if ast.dump(t.value) == dump_e:
                        t.value = ast.copy_location(ast.Name(id=v, ctx=ast.Load()), t.value)
                        changed = True
                    elif replace_in(t.value, dump_e, v):
                        changed = True
                elif isinstance(t, (ast.AugAssign, ast.Expr, ast.Return)) and t.value is not None:
                    if ast.dump(t.value) == dump_e:
                        t.value = ast.copy_location(ast.Name(id=v, ctx=ast.Load()), t.value)
                        changed = True
                    elif replace_in(t.value, dump_e, v):
                        changed = True
                if mutated_names(t) & watch:
                    break
    visit(fn.body)
    if changed:
        ast.fix_missing_locations(fn)
        _invalidate()
    return changed


def _extend_to_augassign(fn: ast.FunctionDef) -> bool:
    """N21: `L.extend(E)` as a statement, L a local that is bound to a list display / `list(..)` wherever it is bound,
    is `L += E` (the list is extended in place either way)."""
    defs: Dict[str, List[ast.AST]] = {}
    for n in ast.walk(fn):
        if isinstance(n, ast.Assign) and len(n.targets) == 1 and isinstance(n.targets[0], ast.Name):
            defs.setdefault(n.targets[0].id, []).append(n.value)
    lists = {v for v, ds in defs.items() if ds and all(
        isinstance(d, (ast.List, ast.ListComp)) or (isinstance(d, ast.Call) and isinstance(d.func, ast.Name) and d.func.id == 'list')
        or (isinstance(d, ast.Call) and isinstance(d.func, ast.Attribute) and _base_name(d.func.value) in LIB_MODULES) for d in ds)
        and any(isinstance(d, (ast.List, ast.ListComp)) or (isinstance(d, ast.Call) and isinstance(d.func, ast.Name) and d.func.id == 'list')
                for d in ds)} - _fn_params(fn)
    # (a later re-binding to an array - `L = np.array(L)` - does not matter: `.extend` is only defined while L is a list)
    changed = False

    def visit(block):
        nonlocal changed
        for k, st in enumerate(block):
            if isinstance(st, ast.Expr) and isinstance(st.value, ast.Call) and isinstance(st.value.func, ast.Attribute) \
                    and st.value.func.attr == 'extend' and isinstance(st.value.func.value, ast.Name) and st.value.func.value.id in lists \
                    and len(st.value.args) == 1 and not st.value.keywords and not isinstance(st.value.args[0], ast.Starred):
                block[k] = _fix(ast.AugAssign(target=ast.Name(id=st.value.func.value.id, ctx=ast.Store()), op=ast.Add(),
                                              value=st.value.args[0]), st)
                changed = True
            elif not isinstance(st, (ast.FunctionDef, ast.ClassDef)):
                for b in _blocks_of(st):
                    visit(b)
    visit(fn.body)
    if changed:
        _invalidate()
    return changed


def _fuse_ifs(block: List[ast.stmt]) -> bool:
    """N20: two `if` statements of one block with the same side-effect free test, the second of which commutes with
    everything between them, whose test reads nothing that the first one (or what lies between) writes, become one:
    `if c: A else: B ... if c: C else: D`  ->  `if c: A; C else: B; D ...`.  (One decision written twice - say once
    for a value and once for the cursor that goes with it - is the same program as the decision written once.)"""
    changed = False
    for st in block:
        if isinstance(st, (ast.FunctionDef, ast.ClassDef)):
            continue
        for b in _blocks_of(st):
            changed = _fuse_ifs(b) or changed
    k = 0
    while k < len(block):
        s = block[k]
        if isinstance(s, ast.If) and _is_pure_expr(s.test) and not any(
                isinstance(n, (ast.Return, ast.Break, ast.Continue, ast.Raise, ast.Yield)) for n in ast.walk(s)):
            tnames = _names_loaded(s.test)
            if not (mutated_names(s) & tnames):
                j = k + 1
                while j < len(block):
                    t = block[j]
                    if isinstance(t, ast.If) and ast.dump(t.test) == ast.dump(s.test) and not any(
                            isinstance(n, (ast.Return, ast.Break, ast.Continue, ast.Raise, ast.Yield)) for n in ast.walk(t)) \
                            and all(_commute(block[m], t) for m in range(k + 1, j)) \
                            and not any(mutated_names(block[m]) & tnames for m in range(k + 1, j)):
                        s.body = s.body + t.body
                        s.orelse = s.orelse + t.orelse
                        del block[j]
                        _invalidate()
                        changed = True
                        continue
                    if isinstance(t, (ast.FunctionDef, ast.ClassDef, ast.While, ast.For, ast.Try, ast.With, ast.Return, ast.Raise)):
                        break
                    j += 1
        k += 1
    return changed


def _stmt_key(st: ast.stmt) -> str:
    if isinstance(st, ast.Try):
        return '~0' + ast.unparse(st)           # backend selection blocks go last among what they commute with
    if isinstance(st, ast.If):
        return '~1' + ast.unparse(st)
    if isinstance(st, ast.Assign):
        return ast.unparse(st.targets[0]) + ' = ' + ast.unparse(st.value)
    return ast.unparse(st)


def _order_block(block: List[ast.stmt]):
    for st in block:
        if isinstance(st, (ast.FunctionDef, ast.ClassDef)):
            continue
        for b in _blocks_of(st):
            _order_block(b)
    def sortable(s):
        if isinstance(s, (ast.Assign, ast.AugAssign)):
            return True
        if isinstance(s, (ast.If, ast.Try)):
            # self-contained: no jumps out of it
            return not any(isinstance(n, (ast.Return, ast.Break, ast.Continue, ast.Raise, ast.Yield, ast.FunctionDef,
                                          ast.While, ast.For)) for n in ast.walk(s))
        return False
    n = len(block)
    for _ in range(n):
        swapped = False
        for k in range(n - 1):
            a, b = block[k], block[k + 1]
            if sortable(a) and sortable(b) and _stmt_key(b) < _stmt_key(a) and _commute(a, b):
                block[k], block[k + 1] = b, a
                _invalidate()
                swapped = True
        if not swapped:
            break


# ----------------------------------------------------------------------------------------------
# N8: copy coalescing   `v = w` where w is never used afterwards and v never occurs before: rename w to v
# ----------------------------------------------------------------------------------------------

def _coalesce_copies(fn: ast.FunctionDef) -> bool:
    params = _fn_params(fn)
    order: Dict[int, int] = {}
    for k, n in enumerate(ast.walk(fn)):
        pass
    # linear (source) order by (lineno, col) is not reliable after inlining: use a DFS pre-order index
    idx = 0
    pos: Dict[int, int] = {}

    def number(n):
        nonlocal idx
        pos[id(n)] = idx
        idx += 1
        for c in ast.iter_child_nodes(n):
            number(c)
    number(fn)
    occ: Dict[str, List[int]] = {}
    stored: Set[str] = set()
    for n in ast.walk(fn):
        if isinstance(n, ast.Name):
            occ.setdefault(n.id, []).append(pos[id(n)])
            if isinstance(n.ctx, ast.Store):
                stored.add(n.id)
    nested_names: Set[str] = set()
    for n in ast.walk(fn):
        if isinstance(n, (ast.FunctionDef, ast.Lambda)) and n is not fn:
            nested_names |= {m.id for m in ast.walk(n) if isinstance(m, ast.Name)}

    def inside(node_block_owner, name) -> bool:
        """every occurrence of `name` in the function lies inside the given loop statement's body"""
        inner_pos = [pos[id(n)] for st_ in node_block_owner.body for n in ast.walk(st_) if isinstance(n, ast.Name) and n.id == name]
        return len(inner_pos) == len(occ.get(name, []))

    def first_is_store(loop, name) -> bool:
        best = None
        for st_ in loop.body:
            for n in ast.walk(st_):
                if isinstance(n, ast.Name) and n.id == name and (best is None or pos[id(n)] < pos[id(best)]):
                    best = n
        return best is not None and isinstance(best.ctx, ast.Store)

    def find(block, loop):
        for k, s in enumerate(block):
            if isinstance(s, ast.Assign) and len(s.targets) == 1 and isinstance(s.targets[0], ast.Name) \
                    and isinstance(s.value, ast.Name):
                v, w = s.targets[0].id, s.value.id
                if v != w and w not in params and w in stored and v not in nested_names and w not in nested_names:
                    # (w is a local of this function: a module-level name is not renamed)
                    p_t, p_v = pos[id(s.targets[0])], pos[id(s.value)]
                    if all(q >= p_t for q in occ.get(v, [])) and all(q <= p_v for q in occ.get(w, [])):
                        # inside a loop both live ranges must be confined to one iteration of that loop
                        if loop is None or (inside(loop, v) and inside(loop, w) and first_is_store(loop, w)):
                            return block, k, v, w
            if isinstance(s, (ast.FunctionDef, ast.ClassDef)):
                continue
            for b in _blocks_of(s):
                inner_loop = s if isinstance(s, (ast.For, ast.While)) and b is s.body else loop
                r = find(b, inner_loop)
                if r:
                    return r
        return None
    r = find(fn.body, None)
    if not r:
        return False
    block, k, v, w = r
    del block[k]
    if not block:
        block.append(ast.Pass())
    for n in ast.walk(fn):
        if isinstance(n, ast.Name) and n.id == w:
            n.id = v
    return True


def _coalesce_generated(fn: ast.FunctionDef) -> bool:
    """`v = w` where w is a name introduced by inlining (all its occurrences lie in one straight-line stretch of
    the same block that ends at the copy) and v does not occur in that stretch: the stretch works on v itself."""
    def gen(name: str) -> bool:
        return '__inl' in name or name.startswith('__r')

    def occurs(node, name) -> bool:
        return any(isinstance(n, ast.Name) and n.id == name for n in ast.walk(node))

    total: Dict[str, int] = {}
    for n in ast.walk(fn):
        if isinstance(n, ast.Name) and gen(n.id):
            total[n.id] = total.get(n.id, 0) + 1

    def propagate(block) -> bool:
        """after `v = w` (w introduced by inlining) later reads of w are reads of v, until either is re-bound"""
        done = False
        for k, s in enumerate(block):
            if isinstance(s, ast.Assign) and len(s.targets) == 1 and isinstance(s.targets[0], ast.Name) \
                    and isinstance(s.value, ast.Name) and gen(s.value.id) and s.value.id != s.targets[0].id:
                v, w = s.targets[0].id, s.value.id
                for t in block[k + 1:]:
                    rebinds = _stores(t, v) or _stores(t, w)
                    if rebinds and not isinstance(t, (ast.Assign, ast.AugAssign, ast.Expr, ast.Return)):
                        break
                    for n in ast.walk(t):
                        if isinstance(n, ast.Name) and n.id == w and isinstance(n.ctx, ast.Load):
                            n.id = v
                            done = True
                    if rebinds:
                        break
            if isinstance(s, (ast.FunctionDef, ast.ClassDef)):
                continue
            for b in _blocks_of(s):
                done = propagate(b) or done
        return done
    if propagate(fn.body):
        _invalidate()
        total.clear()
        for n in ast.walk(fn):
            if isinstance(n, ast.Name) and gen(n.id):
                total[n.id] = total.get(n.id, 0) + 1

    def find(block) -> bool:
        for k, s in enumerate(block):
            if isinstance(s, ast.Assign) and len(s.targets) == 1 and isinstance(s.targets[0], ast.Name) \
                    and isinstance(s.value, ast.Name) and gen(s.value.id) and s.value.id != s.targets[0].id:
                v, w = s.targets[0].id, s.value.id
                j0 = k
                cnt = 1
                for j in range(k - 1, -1, -1):
                    if occurs(block[j], w):
                        j0 = j
                if j0 < k:
                    cnt += sum(1 for j in range(j0, k) for n in ast.walk(block[j]) if isinstance(n, ast.Name) and n.id == w)
                region = block[j0:k]
                bind_first = bool(region) and _plain_def(region[0], w) and isinstance(region[0].value, ast.Name) \
                    and region[0].value.id == v
                if cnt == total.get(w, 0) and region and not any(occurs(r, v) for r in (region[1:] if bind_first else region)) \
                        and (_plain_def(region[0], w) or _defined_before_use(region, w)) \
                        and not any(isinstance(n, (ast.Break, ast.Continue, ast.FunctionDef, ast.Lambda, ast.Return))
                                    for r in region for n in ast.walk(r)):
                    for r in region:
                        for n in ast.walk(r):
                            if isinstance(n, ast.Name) and n.id == w:
                                n.id = v
                    del block[k]
                    if bind_first:
                        del block[j0]           # the bind has become `v = v`
                    return True
            if isinstance(s, (ast.FunctionDef, ast.ClassDef)):
                continue
            for b in _blocks_of(s):
                if find(b):
                    return True
        return False
    return find(fn.body)


def _defined_before_use(region: List[ast.stmt], w: str) -> bool:
    """every path through the region defines w before it reads it (`if c: w = A else: w = B` as the first statement)"""
    e, d = _exposed(region, w)
    return d and not e


def _coalesce_bound_copy(fn: ast.FunctionDef) -> bool:
    """`w = v` at the top level of the body (w a name introduced by inlining) followed by a stretch of plain statements and
    `if`s after which w is dead: when on every path through the stretch each read of v or w sees the value it would see
    if both were ONE variable, they are one variable (w is renamed to v, the copies `v = w` disappear).  Typical residue of
    an inlined helper that takes a variable, normalises it under its own parameter name and hands it back:
    `x__inl = x; if x__inl is None: x = A else: x__inl = f(x__inl); x = x__inl`."""
    def gen(name: str) -> bool:
        return '__inl' in name or name.startswith('__r')

    def occurs(node, name) -> bool:
        return any(isinstance(n, ast.Name) and n.id == name for n in ast.walk(node))

    for k, st in enumerate(fn.body):
        if not (isinstance(st, ast.Assign) and len(st.targets) == 1 and isinstance(st.targets[0], ast.Name)
                and isinstance(st.value, ast.Name) and gen(st.targets[0].id) and not gen(st.value.id)):
            continue
        w, v = st.targets[0].id, st.value.id
        if any(occurs(x, w) for x in fn.body[:k]):
            continue
        last = max((q for q in range(k + 1, len(fn.body)) if occurs(fn.body[q], w)), default=None)
        if last is None:
            continue
        region = fn.body[k + 1:last + 1]

        def simple(stmts) -> bool:
            for x in stmts:
                if isinstance(x, ast.If):
                    if not (simple(x.body) and simple(x.orelse)):
                        return False
                elif isinstance(x, (ast.Assign, ast.AugAssign, ast.Expr, ast.Assert, ast.Pass)):
                    if any(isinstance(n, (ast.Lambda, ast.ListComp, ast.SetComp, ast.DictComp, ast.GeneratorExp, ast.NamedExpr))
                           and (occurs(n, w) or occurs(n, v)) for n in ast.walk(x)):
                        return False
                elif occurs(x, w) or occurs(x, v):
                    return False
                else:
                    # a statement that mentions neither (a loop, a nested definition ...) - but it must not bind them elsewhere
                    if isinstance(x, (ast.FunctionDef, ast.ClassDef)):
                        return False
            return True
        if not simple(region):
            continue
        ok_all = True
        n_paths = 0

        def run(stmts, two, one, k_):
            """two = (version of v, version of w) in the program as it is; one = version of the merged variable"""
            nonlocal ok_all, n_paths
            for idx, x in enumerate(stmts):
                if not ok_all:
                    return None
                if isinstance(x, ast.If):
                    reads(x.test, two, one)
                    rest = stmts[idx + 1:]
                    for branch in (x.body, x.orelse):
                        r = run(list(branch) + list(rest), two, one, k_)
                    return 'split'
                if isinstance(x, ast.Assign):
                    reads(x.value, two, one)
                    for tg in x.targets:
                        for n in ast.walk(tg):
                            if isinstance(n, ast.Name) and isinstance(n.ctx, ast.Load):
                                reads(n, two, one)
                    tv, tw = two
                    plain = len(x.targets) == 1 and isinstance(x.targets[0], ast.Name)
                    if plain and x.targets[0].id in (v, w) and isinstance(x.value, ast.Name) and x.value.id in (v, w):
                        src = tv if x.value.id == v else tw          # a copy between the two
                        two = (src, tw) if x.targets[0].id == v else (tv, src)
                        # merged: `u = u`, nothing changes
                    else:
                        for tg in x.targets:
                            for n in ast.walk(tg):
                                if isinstance(n, ast.Name) and isinstance(n.ctx, ast.Store) and n.id in (v, w):
                                    two = (id(x), tw) if n.id == v else (tv, id(x))
                                    one = id(x)
                                    tv, tw = two
                elif isinstance(x, ast.AugAssign):
                    reads(x.value, two, one)
                    if isinstance(x.target, ast.Name) and x.target.id in (v, w):
                        reads(ast.Name(id=x.target.id, ctx=ast.Load()), two, one)
                        tv, tw = two
                        two = (id(x), tw) if x.target.id == v else (tv, id(x))
                        one = id(x)
                    else:
                        reads(x.target, two, one)
                else:
                    reads(x, two, one)
            # end of the stretch: w is dead, v must hold what the merged variable holds
            n_paths += 1
            if two[0] != one:
                ok_all = False
            return 'end'

        def reads(node, two, one):
            nonlocal ok_all
            for n in ast.walk(node):
                if isinstance(n, ast.Name) and isinstance(n.ctx, ast.Load) and n.id in (v, w):
                    cur = two[0] if n.id == v else two[1]
                    if cur != one:
                        ok_all = False
        run(region, ('entry', 'entry'), 'entry', 0)
        if not ok_all or n_paths == 0 or n_paths > 64:
            continue
        for n in ast.walk(fn):
            if isinstance(n, ast.Name) and n.id == w:
                n.id = v

        def drop_self_copies(block):
            keep = []
            for x in block:
                if isinstance(x, ast.Assign) and len(x.targets) == 1 and isinstance(x.targets[0], ast.Name) \
                        and isinstance(x.value, ast.Name) and x.value.id == x.targets[0].id:
                    continue
                if not isinstance(x, (ast.FunctionDef, ast.ClassDef)):
                    for b in _blocks_of(x):
                        drop_self_copies(b)
                keep.append(x)
            block[:] = keep or [ast.Pass()]
        drop_self_copies(fn.body)
        _invalidate()
        return True
    return False


def _coalesce_else_copy(fn: ast.FunctionDef) -> bool:
    """A name w introduced by inlining is defined in a block (also as a component of an unpacking), then
    `if c: v = E else: v = w` follows in the same block - c and E may read w - and w occurs nowhere else; v does not occur
    between the definition of w and the `if`: w is v (the helper's variable continues under the caller's name), the else
    arm does nothing."""
    def gen(name: str) -> bool:
        return '__inl' in name or name.startswith('__r')

    def find(block) -> bool:
        for k, s_ in enumerate(block):
            if isinstance(s_, ast.If) and len(s_.orelse) == 1 and len(s_.body) == 1 and isinstance(s_.orelse[0], ast.Assign) \
                    and isinstance(s_.body[0], ast.Assign) and len(s_.orelse[0].targets) == 1 and len(s_.body[0].targets) == 1 \
                    and isinstance(s_.orelse[0].targets[0], ast.Name) and isinstance(s_.body[0].targets[0], ast.Name) \
                    and s_.orelse[0].targets[0].id == s_.body[0].targets[0].id and isinstance(s_.orelse[0].value, ast.Name) \
                    and gen(s_.orelse[0].value.id):
                v, w = s_.body[0].targets[0].id, s_.orelse[0].value.id
                if gen(v) or v == w:
                    continue
                # the definition of w: a store in an earlier statement of this block
                d = None
                for q in range(k - 1, -1, -1):
                    if any(isinstance(n, ast.Name) and n.id == w and isinstance(n.ctx, ast.Store) for n in ast.walk(block[q])):
                        d = q
                        break
                if d is None or not isinstance(block[d], ast.Assign):
                    continue
                between = block[d:k]
                if any(isinstance(n, ast.Name) and n.id == v for t in between for n in ast.walk(t)):
                    continue
                if any(isinstance(n, ast.Name) and n.id == v for n in ast.walk(s_.test)):
                    continue
                inside = {id(n) for t in block[d:k + 1] for n in ast.walk(t)}
                if any(isinstance(n, ast.Name) and n.id == w and id(n) not in inside for n in ast.walk(fn)):
                    continue
                n_stores = sum(1 for t in block[d:k + 1] for n in ast.walk(t)
                               if isinstance(n, ast.Name) and n.id == w and isinstance(n.ctx, ast.Store))
                if n_stores != 1:
                    continue
                for t in block[d:k + 1]:
                    for n in ast.walk(t):
                        if isinstance(n, ast.Name) and n.id == w:
                            n.id = v
                s_.orelse = []
                return True
            if isinstance(s_, (ast.FunctionDef, ast.ClassDef)):
                continue
            for b in _blocks_of(s_):
                if find(b):
                    return True
        return False
    ch = False
    while find(fn.body):
        ch = True
    if ch:
        ast.fix_missing_locations(fn)
        _invalidate()
    return ch


def _coalesce_default_select(fn: ast.FunctionDef) -> bool:
    """`if c: g = A else: g = v` (g a name introduced by inlining, v a plain local / parameter that c may read) where v is not
    read anywhere behind the `if` and the `if` is not inside a loop: g is v from here on - `if c: v = A` (the helper that
    supplies a default for `None` written in place)."""
    def gen(name: str) -> bool:
        return '__inl' in name or name.startswith('__r')

    def find(block, after_nodes, in_loop) -> bool:
        for k, s_ in enumerate(block):
            later = after_nodes | {id(n) for t in block[k + 1:] for n in ast.walk(t)}
            if not in_loop and isinstance(s_, ast.If) and len(s_.orelse) == 1 and len(s_.body) == 1 \
                    and isinstance(s_.orelse[0], ast.Assign) and isinstance(s_.body[0], ast.Assign) \
                    and len(s_.orelse[0].targets) == 1 and len(s_.body[0].targets) == 1 \
                    and isinstance(s_.orelse[0].targets[0], ast.Name) and isinstance(s_.body[0].targets[0], ast.Name) \
                    and s_.orelse[0].targets[0].id == s_.body[0].targets[0].id and gen(s_.body[0].targets[0].id) \
                    and isinstance(s_.orelse[0].value, ast.Name) and not gen(s_.orelse[0].value.id):
                g, v = s_.body[0].targets[0].id, s_.orelse[0].value.id
                v_later = any(isinstance(n, ast.Name) and n.id == v and id(n) in later for n in ast.walk(fn))
                g_elsewhere = any(isinstance(n, ast.Name) and n.id == g and id(n) not in later and not any(n is m for m in ast.walk(s_))
                                  for n in ast.walk(fn))
                v_in_A = v in _names_loaded(s_.body[0].value)
                if not v_later and not g_elsewhere and not v_in_A:
                    for n in ast.walk(fn):
                        if isinstance(n, ast.Name) and n.id == g:
                            n.id = v
                    s_.orelse = []
                    return True
            if isinstance(s_, (ast.FunctionDef, ast.ClassDef)):
                continue
            loop = in_loop or isinstance(s_, (ast.For, ast.While))
            for b in _blocks_of(s_):
                if find(b, later, loop):
                    return True
        return False
    ch = False
    while find(fn.body, set(), False):
        ch = True
    if ch:
        ast.fix_missing_locations(fn)
        _invalidate()
    return ch


def _forward_adjacent_copy(fn: ast.FunctionDef) -> bool:
    """`g = E` directly followed by `T = g` (the whole value; T a name, an attribute or an element), g a name introduced by
    inlining that nothing reads afterwards: `T = E` - the right-hand side is evaluated before the target in either form."""
    def gen(name: str) -> bool:
        return '__inl' in name or name.startswith('__r')

    def find(block, after_ids) -> bool:
        for k in range(len(block) - 1):
            a, b = block[k], block[k + 1]
            if isinstance(a, ast.Assign) and len(a.targets) == 1 and isinstance(a.targets[0], ast.Name) and gen(a.targets[0].id) \
                    and isinstance(b, ast.Assign) and len(b.targets) == 1 and isinstance(b.value, ast.Name) \
                    and b.value.id == a.targets[0].id:
                g = a.targets[0].id
                tgt_reads = _names_loaded(b.targets[0])
                later = after_ids | {id(n) for t in block[k + 2:] for n in ast.walk(t)}
                read_later = any(isinstance(n, ast.Name) and n.id == g and isinstance(n.ctx, ast.Load) and id(n) in later
                                 for n in ast.walk(fn))
                if g not in tgt_reads and not read_later:
                    b.value = a.value
                    del block[k]
                    return True
        for k, s_ in enumerate(block):
            if isinstance(s_, (ast.FunctionDef, ast.ClassDef)):
                continue
            later = after_ids | {id(n) for t in block[k + 1:] for n in ast.walk(t)}
            if isinstance(s_, (ast.For, ast.While)):
                later = later | {id(n) for n in ast.walk(s_)}          # a later iteration may read it
            for b in _blocks_of(s_):
                if find(b, later):
                    return True
        return False
    ch = False
    while find(fn.body, set()):
        ch = True
    if ch:
        ast.fix_missing_locations(fn)
        _invalidate()
    return ch


def _coalesce_select(fn: ast.FunctionDef) -> bool:
    """`if c: w = A else: w = B` directly followed by `v = w`, w a name introduced by inlining that occurs nowhere
    else: the branches define v themselves (`v = v` arms disappear, an `if` left with an empty else loses it)."""
    def gen(name: str) -> bool:
        return '__inl' in name or name.startswith('__r')
    total: Dict[str, int] = {}
    for n in ast.walk(fn):
        if isinstance(n, ast.Name) and gen(n.id):
            total[n.id] = total.get(n.id, 0) + 1

    def find(block) -> bool:
        for k in range(len(block)):
            s, nx = block[k], (block[k + 1] if k + 1 < len(block) else None)
            if isinstance(s, ast.If) and s.orelse and isinstance(nx, ast.Assign) and len(nx.targets) == 1 \
                    and isinstance(nx.targets[0], ast.Name) and isinstance(nx.value, ast.Name) and gen(nx.value.id):
                v, w = nx.targets[0].id, nx.value.id

                def leaves(node: ast.If):
                    """the arms of an if / elif / else chain"""
                    out_ = [node.body]
                    if len(node.orelse) == 1 and isinstance(node.orelse[0], ast.If) and node.orelse[0].orelse:
                        out_ += leaves(node.orelse[0])
                    else:
                        out_.append(node.orelse)
                    return out_
                arms = leaves(s)
                if all(a and _plain_def(a[-1], w) for a in arms) and total.get(w, 0) == len(arms) + 1 \
                        and not any(isinstance(n, ast.Name) and n.id == v and isinstance(n.ctx, ast.Store)
                                    for a in arms for x in a for n in ast.walk(x)) and (len(arms) == 2 or not any(
                                        isinstance(a[-1].value, ast.Name) and a[-1].value.id == v for a in arms)):
                    # (a test that reads v is fine: it is evaluated before either arm assigns)
                    for a in arms:
                        a[-1].targets[0].id = v
                        if isinstance(a[-1].value, ast.Name) and a[-1].value.id == v:
                            del a[-1]
                    if not s.body:
                        # only the else arm is left: flip the test
                        s.test = ast.copy_location(ast.UnaryOp(op=ast.Not(), operand=s.test), s.test)
                        s.body, s.orelse = s.orelse, []
                    del block[k + 1]
                    if not s.body and not s.orelse:
                        del block[k]
                    return True
            if isinstance(s, (ast.FunctionDef, ast.ClassDef)):
                continue
            for b in _blocks_of(s):
                if find(b):
                    return True
        return False
    ch = False
    while find(fn.body):
        ch = True
        total.clear()
        for n in ast.walk(fn):
            if isinstance(n, ast.Name) and gen(n.id):
                total[n.id] = total.get(n.id, 0) + 1
    if ch:
        ast.fix_missing_locations(fn)
        _invalidate()
    return ch


# ----------------------------------------------------------------------------------------------
# N12: `a, b = E` followed by `T1 = a`, `T2 = b` (a, b otherwise unused)  ->  `T1, T2 = E`
# ----------------------------------------------------------------------------------------------

def _forward_tuple_temps(fn: ast.FunctionDef) -> bool:
    params = _fn_params(fn)

    def find(block) -> bool:
        for k, s in enumerate(block):
            if isinstance(s, ast.Assign) and len(s.targets) == 1 and isinstance(s.targets[0], ast.Tuple) \
                    and all(isinstance(e, ast.Name) for e in s.targets[0].elts) and not isinstance(s.value, ast.Tuple):
                names = [e.id for e in s.targets[0].elts]
                n = len(names)
                if len(set(names)) == n and not (set(names) & params) and k + n < len(block) + 0:
                    follow = block[k + 1:k + 1 + n]
                    m: Dict[str, ast.expr] = {}
                    ok = len(follow) == n
                    for f in follow:
                        if isinstance(f, ast.Assign) and len(f.targets) == 1 and isinstance(f.value, ast.Name) \
                                and f.value.id in names and f.value.id not in m \
                                and isinstance(f.targets[0], (ast.Name, ast.Attribute)):
                            m[f.value.id] = f.targets[0]
                        else:
                            ok = False
                    if ok and len(m) == n:
                        # the temporaries occur nowhere else in the function
                        cnt = {x: 0 for x in names}
                        for nn in ast.walk(fn):
                            if isinstance(nn, ast.Name) and nn.id in cnt:
                                cnt[nn.id] += 1
                        tg_bases = {_base_name(t) for t in m.values()}
                        if all(c == 2 for c in cnt.values()) and not (tg_bases & set(names)):
                            s.targets[0].elts = [m[x] for x in names]
                            for e in s.targets[0].elts:
                                e.ctx = ast.Store()
                            del block[k + 1:k + 1 + n]
                            return True
            if isinstance(s, (ast.FunctionDef, ast.ClassDef)):
                continue
            for b in _blocks_of(s):
                if find(b):
                    return True
        return False
    ch = False
    while find(fn.body):
        ch = True
    return ch


# ----------------------------------------------------------------------------------------------
# N13: counting while loops -> for loops over a range
# ----------------------------------------------------------------------------------------------

def _while_to_for(fn: ast.FunctionDef) -> bool:
    """`j = A ... while j < B: BODY; j += 1`  ->  `for j in range(A, B): BODY`   (likewise downwards), when BODY
    does not otherwise assign j, does not `continue`, does not modify the operands of B, and j is not read after
    the loop."""
    changed = False

    def conv(block: List[ast.stmt], cont: List[List[ast.stmt]]):
        nonlocal changed
        for k, s in enumerate(block):
            if isinstance(s, (ast.FunctionDef, ast.ClassDef)):
                continue
            rest = block[k + 1:]
            if isinstance(s, (ast.While, ast.For)):
                head = [_fix(ast.Expr(value=s.test if isinstance(s, ast.While) else s.iter), s)]
                conv(s.body, [head, _LoopBody(s.body), s.orelse, rest] + cont)
            else:
                for b in _blocks_of(s):
                    conv(b, [rest] + cont)
            if not isinstance(s, ast.While) or s.orelse or not s.body:
                continue
            t = s.test
            if not (isinstance(t, ast.Compare) and len(t.ops) == 1):
                continue
            last = s.body[-1]
            if not (isinstance(last, ast.AugAssign) and isinstance(last.target, ast.Name)
                    and isinstance(last.op, (ast.Add, ast.Sub)) and _int_const(last.value, 1)):
                continue
            j = last.target.id
            up = isinstance(last.op, ast.Add)
            l, op, r = t.left, t.ops[0], t.comparators[0]
            stop = None
            if up and isinstance(l, ast.Name) and l.id == j and isinstance(op, ast.Lt):
                stop = r
            elif not up and isinstance(r, ast.Name) and r.id == j and isinstance(op, ast.LtE):      # C <= j
                stop = _fix(ast.BinOp(left=l, op=ast.Sub(), right=ast.Constant(value=1)), l)
                if isinstance(l, ast.Constant) and isinstance(l.value, int):
                    stop = _fix(ast.UnaryOp(op=ast.USub(), operand=ast.Constant(value=1 - l.value)), l) \
                        if l.value - 1 < 0 else _fix(ast.Constant(value=l.value - 1), l)
            elif not up and isinstance(r, ast.Name) and r.id == j and isinstance(op, ast.Lt):       # C < j
                stop = l
            if stop is None or j in _names_loaded(stop):
                continue
            body = s.body[:-1]
            bm = ast.Module(body=body, type_ignores=[])
            if _stores(bm, j) or any(isinstance(n, ast.Continue) for n in ast.walk(bm)):
                continue
            if mutated_names(bm) & _names_loaded(stop):
                continue
            if _exposed_seq([rest] + cont, j):
                continue
            # the initialisation: the nearest preceding plain definition of j in this block, j untouched in between
            init = None
            clamp = None
            for q in range(k - 1, -1, -1):
                if _plain_def(block[q], j):
                    init = q
                    break
                c_ = block[q]
                # `if j < c: j = c` directly in front: the count starts at max(j, c)
                if clamp is None and up and isinstance(c_, ast.If) and not c_.orelse and len(c_.body) == 1 \
                        and _plain_def(c_.body[0], j) and isinstance(c_.test, ast.Compare) and len(c_.test.ops) == 1 \
                        and isinstance(c_.test.ops[0], ast.Lt) and isinstance(c_.test.left, ast.Name) and c_.test.left.id == j \
                        and ast.dump(c_.test.comparators[0]) == ast.dump(c_.body[0].value) and j not in _names_loaded(c_.body[0].value):
                    clamp = q
                    continue
                if any(isinstance(n, ast.Name) and n.id == j for n in ast.walk(block[q])):
                    break
            params_ = _fn_params(fn)
            if init is None and j in params_ and not any(
                    isinstance(n, ast.Name) and n.id == j for q in range(0, k) if q != clamp for n in ast.walk(block[q])) \
                    and block is fn.body:
                # the counter is a parameter (optionally clamped from below first): it starts at its incoming value
                A = ast.Name(id=j, ctx=ast.Load())
                if clamp is not None:
                    A = ast.Call(func=ast.Name(id='max', ctx=ast.Load()),
                                 args=[ast.Name(id=j, ctx=ast.Load()), block[clamp].body[0].value], keywords=[])
                drop = [clamp] if clamp is not None else []
                param_counter = True
            else:
                if init is None or clamp is not None:
                    continue
                A = block[init].value
                between = ast.Module(body=block[init + 1:k], type_ignores=[])
                if mutated_names(between) & _names_loaded(A) or j in _names_loaded(A) or not _is_pure_expr(A):
                    continue
                drop = [init]
            args = [A, stop] + ([] if up else [_fix(ast.UnaryOp(op=ast.USub(), operand=ast.Constant(value=1)), s)])
            if locals().get('param_counter'):
                # the parameter is dead behind the loop (checked above): the loop gets a variable of its own, the
                # parameter keeps its incoming value (a loop variable that is a local of its loop on both sides of a
                # comparison is paired whatever it is called)
                param_counter = False
                jj = f"{j}__k"
                if not any(isinstance(n, ast.Name) and n.id == jj for n in ast.walk(fn)):
                    for st_ in body:
                        for n in ast.walk(st_):
                            if isinstance(n, ast.Name) and n.id == j:
                                n.id = jj
                    j = jj
            new = ast.For(target=ast.Name(id=j, ctx=ast.Store()),
                          iter=ast.Call(func=ast.Name(id='range', ctx=ast.Load()), args=args, keywords=[]),
                          body=body or [ast.Pass()], orelse=[])
            _fix(new, s)
            block[k] = new
            for q_ in sorted(drop, reverse=True):
                del block[q_]
            changed = True
            _invalidate()
            return conv(block, cont)
    conv(fn.body, [])
    return changed


# ----------------------------------------------------------------------------------------------
# N17: `for T in (E for x in ITER if c): BODY`  ->  `for x in ITER: if c: T = E; BODY`
# ----------------------------------------------------------------------------------------------

def _unroll_comprehension_loops(fn: ast.FunctionDef) -> bool:
    changed = False
    fn_names = {n.id for n in ast.walk(fn) if isinstance(n, ast.Name)}

    def visit(block):
        nonlocal changed
        for k, st in enumerate(block):
            if isinstance(st, (ast.FunctionDef, ast.ClassDef)):
                continue
            for b in _blocks_of(st):
                visit(b)
            if isinstance(st, ast.For) and isinstance(st.iter, (ast.GeneratorExp, ast.ListComp)) and len(st.iter.generators) == 1 \
                    and not st.orelse and not st.iter.generators[0].is_async:
                g = st.iter.generators[0]
                tnames = {n.id for n in ast.walk(g.target) if isinstance(n, ast.Name)}
                # the comprehension's own variables become loop variables of the function: they must be new names
                # there, and the loop body must not `continue` past the element assignment (it comes first: fine)
                others = {n.id for n in ast.walk(fn) if isinstance(n, ast.Name)} - \
                    {n.id for n in ast.walk(st.iter) if isinstance(n, ast.Name)}
                if tnames & others:
                    continue
                first = _fix(ast.Assign(targets=[st.target], value=st.iter.elt), st)
                for n in ast.walk(first.targets[0]):
                    if isinstance(n, ast.Name):
                        n.ctx = ast.Store()
                body = [first] + st.body
                for c in reversed(g.ifs):
                    body = [_fix(ast.If(test=c, body=body, orelse=[]), st)]
                new = _fix(ast.For(target=g.target, iter=g.iter, body=body, orelse=[]), st)
                block[k] = new
                changed = True
    visit(fn.body)
    if changed:
        _invalidate()
    return changed


# ----------------------------------------------------------------------------------------------
# N14: lengths of arrays that are bound once get one name each
# ----------------------------------------------------------------------------------------------

COMBINATIONS: Set[str] = set()       # names bound to itertools.combinations in the module being normalised


def _pair_combinations(fn: ast.FunctionDef, combos: Set[str]) -> bool:
    """N19: `combinations(X, 2)` (itertools, bound to one of the names in `combos`) over a sequence is the pair
    comprehension that enumerates it: `[(X[a], b) for a in range(len(X)) for b in X[a + 1:]]`, and for X = range(E) the
    pairs of positions `[(a, b) for a in range(E) for b in range(a + 1, E)]`; `list(<that>)` is the list itself."""
    has_triu = any(isinstance(n, ast.Attribute) and n.attr == 'triu_indices' for n in ast.walk(fn))
    if not combos and not has_triu:
        return False
    changed = False
    counter = [0]
    taken = {n.id for n in ast.walk(fn) if isinstance(n, ast.Name)}

    def fresh(base):
        while True:
            counter[0] += 1
            nm = f"{base}__c{counter[0]}"
            if nm not in taken:
                taken.add(nm)
                return nm

    class T(ast.NodeTransformer):
        def visit_FunctionDef(self, node):
            if node is fn:
                self.generic_visit(node)
            return node

        def visit_Call(self, node):
            nonlocal changed
            self.generic_visit(node)
            f = node.func
            # zip(*np.triu_indices(E, k=1)): the pairs of positions a < b < E in row-major order
            if isinstance(f, ast.Name) and f.id == 'zip' and len(node.args) == 1 and isinstance(node.args[0], ast.Starred) \
                    and not node.keywords and isinstance(node.args[0].value, ast.Call) \
                    and ast.unparse(node.args[0].value.func) in ('np.triu_indices', 'numpy.triu_indices'):
                tc = node.args[0].value
                kk = tc.args[1] if len(tc.args) == 2 else next((k_.value for k_ in tc.keywords if k_.arg == 'k'), None)
                if len(tc.args) in (1, 2) and all(k_.arg == 'k' for k_ in tc.keywords) and isinstance(kk, ast.Constant) and kk.value == 1 \
                        and _is_pure_expr(tc.args[0]):
                    a, b = fresh('a'), fresh('b')
                    E = ast.unparse(tc.args[0])
                    changed = True
                    return ast.copy_location(ast.parse(f"[({a}, {b}) for {a} in range({E}) for {b} in range({a} + 1, {E})]", mode='eval').body, node)
            nm = f.id if isinstance(f, ast.Name) else (f.attr if isinstance(f, ast.Attribute) and isinstance(f.value, ast.Name)
                                                       and f.value.id == 'itertools' else None)
            if nm in combos or (isinstance(f, ast.Attribute) and nm == 'combinations'):
                if len(node.args) == 2 and not node.keywords and isinstance(node.args[1], ast.Constant) and node.args[1].value == 2:
                    X = node.args[0]
                    a, b = fresh('a'), fresh('b')
                    if isinstance(X, ast.Call) and isinstance(X.func, ast.Name) and X.func.id in ('range', 'xrange') and len(X.args) == 1 \
                            and not X.keywords and _is_pure_expr(X.args[0]):
                        E = X.args[0]
                        src = f"[({a}, {b}) for {a} in range({ast.unparse(E)}) for {b} in range({a} + 1, {ast.unparse(E)})]"
                    elif isinstance(X, ast.Name):
                        src = f"[({X.id}[{a}], {b}) for {a} in range(len({X.id})) for {b} in {X.id}[{a} + 1:]]"
                    else:
                        return node
                    changed = True
                    return ast.copy_location(ast.parse(src, mode='eval').body, node)
            if isinstance(f, ast.Name) and f.id == 'list' and len(node.args) == 1 and not node.keywords and isinstance(node.args[0], ast.ListComp):
                changed = True
                return node.args[0]
            return node
    # `for (i, u), (j, v) in combinations(enumerate(Y), 2): BODY` - the pairs of positions with their elements - is
    # `for i, j in [(a, b) for a in range(len(Y)) for b in range(a + 1, len(Y))]: u = Y[i]; v = Y[j]; BODY`
    # (Y a name, or a comprehension `[E(n) for n in S]`, whose k-th element is E(S[k]) and whose length is len(S))
    def loops(block):
        nonlocal changed
        for st in block:
            if isinstance(st, (ast.FunctionDef, ast.ClassDef)):
                continue
            for b in _blocks_of(st):
                loops(b)
            if not (isinstance(st, ast.For) and not st.orelse and isinstance(st.iter, ast.Call) and not st.iter.keywords
                    and len(st.iter.args) == 2 and isinstance(st.iter.args[1], ast.Constant) and st.iter.args[1].value == 2):
                continue
            f = st.iter.func
            nm = f.id if isinstance(f, ast.Name) else (f.attr if isinstance(f, ast.Attribute) and isinstance(f.value, ast.Name)
                                                       and f.value.id == 'itertools' else None)
            if not (nm in combos or (isinstance(f, ast.Attribute) and nm == 'combinations')):
                continue
            X = st.iter.args[0]
            tg = st.target
            if not (isinstance(X, ast.Call) and isinstance(X.func, ast.Name) and X.func.id == 'enumerate' and len(X.args) == 1
                    and not X.keywords and isinstance(tg, ast.Tuple) and len(tg.elts) == 2
                    and all(isinstance(e, ast.Tuple) and len(e.elts) == 2 and all(isinstance(x, ast.Name) for x in e.elts) for e in tg.elts)):
                continue
            Y = X.args[0]
            (i_, u_), (j_, v_) = [(e.elts[0].id, e.elts[1].id) for e in tg.elts]
            if len({i_, u_, j_, v_}) != 4:
                continue
            if isinstance(Y, ast.Name):
                length = f"len({Y.id})"

                def elem(k, Y=Y):
                    return ast.parse(f"{Y.id}[{k}]", mode='eval').body
                if Y.id in mutated_names(st, calls=False):
                    continue
            elif isinstance(Y, ast.ListComp) and len(Y.generators) == 1 and not Y.generators[0].ifs and isinstance(Y.generators[0].iter, ast.Name) \
                    and isinstance(Y.generators[0].target, ast.Name) and _is_pure_expr(Y.elt):
                S, var = Y.generators[0].iter.id, Y.generators[0].target.id
                length = f"len({S})"
                if S in mutated_names(st, calls=False):
                    continue

                def elem(k, Y=Y, S=S, var=var):
                    return _Subst(var, ast.parse(f"{S}[{k}]", mode='eval').body).visit(copy.deepcopy(Y.elt))
            else:
                continue
            a, b = fresh('a'), fresh('b')
            st.iter = ast.copy_location(ast.parse(f"[({a}, {b}) for {a} in range({length}) for {b} in range({a} + 1, {length})]",
                                                  mode='eval').body, st.iter)
            st.target = ast.copy_location(ast.Tuple(elts=[ast.Name(id=i_, ctx=ast.Store()), ast.Name(id=j_, ctx=ast.Store())],
                                                    ctx=ast.Store()), tg)
            st.body[0:0] = [_fix(ast.Assign(targets=[ast.Name(id=u_, ctx=ast.Store())], value=elem(i_)), st),
                            _fix(ast.Assign(targets=[ast.Name(id=v_, ctx=ast.Store())], value=elem(j_)), st)]
            changed = True
    loops(fn.body)
    T().visit(fn)
    if changed:
        ast.fix_missing_locations(fn)
        _invalidate()
    return changed


def _lengths_of_like_arrays(fn: ast.FunctionDef) -> bool:
    """N18: `len(v)` where v is bound exactly once, by `np.zeros_like(E)` / `np.empty_like(E)` / `np.ones_like(E)` with E
    a name or attribute chain that is never re-bound in the function, is `len(E)`: an array has the length of the
    array it was shaped after, and array lengths never change."""
    stores: Dict[str, int] = {}
    for n in ast.walk(fn):
        if isinstance(n, ast.Name) and isinstance(n.ctx, (ast.Store, ast.Del)):
            stores[n.id] = stores.get(n.id, 0) + 1
    attr_stores = set()
    for n in ast.walk(fn):
        if isinstance(n, ast.Attribute) and isinstance(n.ctx, (ast.Store, ast.Del)):
            attr_stores.add(ast.unparse(n))
    params = _fn_params(fn)
    like: Dict[str, ast.expr] = {}
    for n in ast.walk(fn):
        if isinstance(n, ast.Assign) and len(n.targets) == 1 and isinstance(n.targets[0], ast.Name) \
                and stores.get(n.targets[0].id) == 1 and n.targets[0].id not in params \
                and isinstance(n.value, ast.Call) and not n.value.keywords and len(n.value.args) == 1 \
                and ast.unparse(n.value.func) in ('np.zeros_like', 'np.empty_like', 'np.ones_like'):
            e = n.value.args[0]
            b = _base_name(e)
            chain_ok = isinstance(e, ast.Name) or (isinstance(e, ast.Attribute) and all(
                isinstance(x, (ast.Attribute, ast.Name, ast.Load)) for x in ast.walk(e)))
            if b is None or not chain_ok:
                continue
            if stores.get(b, 0) > (0 if b in params else 1) or any(a == ast.unparse(e) or ast.unparse(e).startswith(a + '.')
                                                                    for a in attr_stores):
                continue
            like[n.targets[0].id] = e
    if not like:
        return False
    changed = False

    class T(ast.NodeTransformer):
        def visit_Call(self, node):
            nonlocal changed
            self.generic_visit(node)
            if isinstance(node.func, ast.Name) and node.func.id == 'len' and len(node.args) == 1 and not node.keywords \
                    and isinstance(node.args[0], ast.Name) and node.args[0].id in like:
                changed = True
                return ast.copy_location(ast.Call(func=node.func, args=[copy.deepcopy(like[node.args[0].id])], keywords=[]), node)
            return node
    T().visit(fn)
    if changed:
        ast.fix_missing_locations(fn)
        _invalidate()
    return changed


def _name_lengths(fn: ast.FunctionDef):
    """Every `len(x)` of a parameter or once-defined local x that is never re-bound is replaced by the local
    `N_x`, defined once (at the top of the function for parameters, right after the definition of x otherwise).
    Sources that spell the length out and sources that keep it in a variable get the same form."""
    params = _fn_params(fn)
    uses: Dict[str, int] = {}
    for n in ast.walk(fn):
        if isinstance(n, ast.Call) and isinstance(n.func, ast.Name) and n.func.id == 'len' and len(n.args) == 1 \
                and isinstance(n.args[0], ast.Name) and not n.keywords:
            uses[n.args[0].id] = uses.get(n.args[0].id, 0) + 1
    if not uses:
        return
    nested: Set[str] = set()
    for n in ast.walk(fn):
        if isinstance(n, (ast.FunctionDef, ast.Lambda)) and n is not fn:
            nested |= {m.id for m in ast.walk(n) if isinstance(m, ast.Name)}
        if isinstance(n, (ast.ListComp, ast.SetComp, ast.DictComp, ast.GeneratorExp)):
            for g in n.generators:
                nested |= {m.id for m in ast.walk(g.target) if isinstance(m, ast.Name)}
    rebound = {}
    for n in ast.walk(fn):
        if isinstance(n, ast.Name) and isinstance(n.ctx, (ast.Store, ast.Del)):
            rebound[n.id] = rebound.get(n.id, 0) + 1
    resized: Set[str] = set()
    for n in ast.walk(fn):
        if isinstance(n, ast.Call):
            _call_kills(n, resized)
    existing = {n.id for n in ast.walk(fn) if isinstance(n, ast.Name)}
    for x in sorted(uses):
        if x in nested or x in resized or uses[x] < 1:
            continue
        nm = f"N_{x}"
        if nm in existing:
            continue
        if not ((x in params and rebound.get(x, 0) == 0) or (x not in params and rebound.get(x, 0) == 1)):
            continue

        def is_len_x(n):
            return isinstance(n, ast.Call) and isinstance(n.func, ast.Name) and n.func.id == 'len' and len(n.args) == 1 \
                and isinstance(n.args[0], ast.Name) and n.args[0].id == x and not n.keywords

        def count(node) -> int:
            return sum(1 for n in ast.walk(node) if is_len_x(n))

        def unconditional(st) -> bool:
            """len(x) is evaluated whenever the statement is executed"""
            def cond_free(e) -> bool:
                # a len(x) occurrence outside conditionally evaluated sub-expressions
                if is_len_x(e):
                    return True
                if isinstance(e, ast.BoolOp):
                    return cond_free(e.values[0])
                if isinstance(e, ast.IfExp):
                    return cond_free(e.test)
                if isinstance(e, (ast.Lambda, ast.ListComp, ast.SetComp, ast.DictComp, ast.GeneratorExp)):
                    if isinstance(e, ast.Lambda):
                        return False
                    return cond_free(e.generators[0].iter)
                return any(cond_free(c) for c in ast.iter_child_nodes(e) if isinstance(c, ast.expr) or
                           isinstance(c, (ast.keyword, ast.Slice, ast.comprehension)))
            if isinstance(st, (ast.Assign, ast.AugAssign, ast.AnnAssign, ast.Expr, ast.Return, ast.Assert)):
                return any(cond_free(c) for c in ast.iter_child_nodes(st) if isinstance(c, ast.expr))
            if isinstance(st, (ast.If, ast.While)):
                return cond_free(st.test)
            if isinstance(st, ast.For):
                return cond_free(st.iter)
            if isinstance(st, ast.With):
                return any(unconditional(s_) for s_ in st.body)
            return False

        # the innermost block that contains every use
        blk = fn.body
        while True:
            holders = [s_ for s_ in blk if count(s_)]
            if len(holders) == 1 and not unconditional(holders[0]) and not isinstance(holders[0], (ast.FunctionDef, ast.ClassDef)):
                subs = [b_ for b_ in _blocks_of(holders[0]) if any(count(s_) for s_ in b_)]
                hdr = count(holders[0]) - sum(count(s_) for b_ in subs for s_ in b_)
                if len(subs) == 1 and hdr == 0 and not isinstance(holders[0], (ast.While, ast.For)):
                    blk = subs[0]
                    continue
            break
        first = next((i for i, s_ in enumerate(blk) if count(s_)), None)
        if first is None:
            continue
        if x in params:
            # the length of an array parameter: named once, at the top of the function
            blk = fn.body
            first = 1 if (fn.body and isinstance(fn.body[0], ast.Expr) and isinstance(fn.body[0].value, ast.Constant)
                          and isinstance(fn.body[0].value.value, str)) else 0
        elif not unconditional(blk[first]):
            continue            # the first evaluation is conditional: naming it would add an evaluation
        k = first
        # x must be defined before that point: a parameter, or its single definition precedes in this or an outer block
        if x not in params:
            defined_before = False
            for s_ in ast.walk(ast.Module(body=blk[:k], type_ignores=[])):
                if isinstance(s_, ast.Name) and s_.id == x and isinstance(s_.ctx, ast.Store):
                    defined_before = True
            if not defined_before and blk is fn.body:
                continue
            if not defined_before:
                # defined in an outer block before the statement that holds blk: accept only if the definition is a
                # top-level statement of the function that precedes the holder
                pos_def = next((i for i, s_ in enumerate(fn.body) if _plain_def(s_, x)), None)
                pos_use = next((i for i, s_ in enumerate(fn.body) if count(s_)), None)
                if pos_def is None or pos_use is None or pos_def >= pos_use:
                    continue
        # inside a loop body the name would be re-evaluated per iteration: fine (same value), but keep it simple
        class R(ast.NodeTransformer):
            def visit_Call(self, node):
                self.generic_visit(node)
                if isinstance(node.func, ast.Name) and node.func.id == 'len' and len(node.args) == 1 \
                        and isinstance(node.args[0], ast.Name) and node.args[0].id == x and not node.keywords:
                    return ast.copy_location(ast.Name(id=nm, ctx=ast.Load()), node)
                return node

            def visit_FunctionDef(self, node):
                if node is fn:
                    self.generic_visit(node)
                return node
        R().visit(fn)
        ref = blk[k] if k < len(blk) else blk[-1]
        d = ast.Assign(targets=[ast.Name(id=nm, ctx=ast.Store())],
                       value=ast.Call(func=ast.Name(id='len', ctx=ast.Load()), args=[ast.Name(id=x, ctx=ast.Load())],
                                      keywords=[]))
        ast.copy_location(d, ref)
        d.lineno = getattr(ref, 'lineno', fn.lineno)
        blk.insert(k, d)
    ast.fix_missing_locations(fn)


# ----------------------------------------------------------------------------------------------
# N1: helper inlining
# ----------------------------------------------------------------------------------------------

class _Rename(ast.NodeTransformer):
    def __init__(self, mapping: Dict[str, str]):
        self.m = mapping

    def visit_Name(self, node):
        if node.id in self.m:
            return ast.copy_location(ast.Name(id=self.m[node.id], ctx=node.ctx), node)
        return node

    def visit_FunctionDef(self, node):
        return node


def _ret_to_assign(stmts: List[ast.stmt], target: Optional[str], at: ast.AST) -> Optional[List[ast.stmt]]:
    """Rewrite a helper body so that it assigns its result to `target` and falls through instead of returning.
    None when the shape is not supported (return inside a loop/try/with)."""
    def has_return(nodes) -> bool:
        return any(isinstance(n, ast.Return) for s in nodes for n in ast.walk(s)
                   if not isinstance(s, (ast.FunctionDef,)))

    def assign(e: Optional[ast.expr], ref: ast.AST) -> List[ast.stmt]:
        if target is None:
            if e is None or isinstance(e, ast.Constant):
                return []
            return [_fix(ast.Expr(value=e), ref)]
        val = e if e is not None else ast.Constant(value=None)
        if isinstance(target, ast.AST):
            # a tuple of the caller's names: `a, b = helper(..)` receives each returned tuple directly
            tg = copy.deepcopy(target)
            for n_ in ast.walk(tg):
                if isinstance(n_, ast.Name):
                    n_._result = True
            return [_fix(ast.Assign(targets=[tg], value=val), ref)]
        nm = ast.Name(id=target, ctx=ast.Store())
        nm._result = True
        return [_fix(ast.Assign(targets=[nm], value=val), ref)]

    out: List[ast.stmt] = []
    for i, s in enumerate(stmts):
        rest = stmts[i + 1:]
        if isinstance(s, ast.Return):
            return out + assign(s.value, s)       # statements after a return are dead
        if isinstance(s, ast.FunctionDef) or not has_return([s]):
            out.append(s)
            continue
        if isinstance(s, ast.If):
            body_t = terminates(s.body) and not in_loop_leak(s.body)
            else_t = bool(s.orelse) and terminates(s.orelse) and not in_loop_leak(s.orelse)
            if body_t and else_t:
                b = _ret_to_assign(s.body, target, at)
                o = _ret_to_assign(s.orelse, target, at)
            elif body_t:
                b = _ret_to_assign(s.body, target, at)
                o = _ret_to_assign(list(s.orelse) + rest, target, at)
            elif else_t:
                b = _ret_to_assign(list(s.body) + rest, target, at)
                o = _ret_to_assign(s.orelse, target, at)
            else:
                return None
            if b is None or o is None:
                return None
            new = _fix(ast.If(test=s.test, body=b or [_fix(ast.Pass(), s)], orelse=o), s)
            return out + [new]
        return None
    # fell off the end: returns None
    return out + assign(None, at)


class _HelperInliner:
    def __init__(self, resolve, module_globals_ok):
        self.resolve = resolve                  # (call, enclosing fn stack) -> FunctionDef | None
        self.counter = 0

    def inline_in(self, fn: ast.FunctionDef, nested: Dict[str, ast.FunctionDef], resolver) -> bool:
        changed = False
        fn.body, ch = self._block(fn.body, fn, nested, resolver)
        return ch

    def _block(self, block, fn, nested, resolver):
        changed = False
        out: List[ast.stmt] = []
        for st in block:
            if isinstance(st, ast.FunctionDef):
                out.append(st)
                continue
            # nested blocks first
            for b in _blocks_of(st):
                nb, ch = self._block(b, fn, nested, resolver)
                b[:] = nb
                changed |= ch
            pre, st2, ch = self._stmt(st, fn, nested, resolver)
            changed |= ch
            out.extend(pre)
            if st2 is not None:
                out.append(st2)
        return out, changed

    def _expr_owner_fields(self, st: ast.stmt):
        """Expressions of `st` that are evaluated exactly once when the statement is reached (not loop bodies)."""
        if isinstance(st, (ast.Assign, ast.AugAssign, ast.Return, ast.Expr, ast.AnnAssign)):
            return ['value']
        if isinstance(st, ast.If):
            return ['test']
        if isinstance(st, ast.For):
            return ['iter']
        return []

    def _stmt(self, st, fn, nested, resolver):
        pre: List[ast.stmt] = []
        changed = False
        for fld in self._expr_owner_fields(st):
            e = getattr(st, fld, None)
            if e is None:
                continue
            # find helper calls in evaluation order (outermost handled after its arguments are left alone)
            while True:
                call = self._find_call(e, fn, nested, resolver)
                if call is None:
                    break
                helper, cnode = call
                self.counter += 1
                tag = f"__inl{self.counter}"
                whole = (cnode is e)
                if whole and isinstance(st, ast.Assign) and len(st.targets) == 1 and isinstance(st.targets[0], ast.Name) \
                        and (st.targets[0].id not in _names_loaded(cnode)
                             or self._returns_param_bound_to(helper, cnode, st.targets[0].id)):
                    tgt = st.targets[0].id
                    body = self._instantiate(helper, cnode, tgt, tag)
                    if body is None:
                        cnode._no_inline = True
                        continue
                    return pre + body, None, True
                if whole and isinstance(st, ast.Assign) and len(st.targets) == 1 and isinstance(st.targets[0], ast.Tuple) \
                        and all(isinstance(x, (ast.Name, ast.Tuple, ast.List)) and isinstance(getattr(x, 'ctx', None), ast.Store)
                                for x in ast.walk(st.targets[0]) if isinstance(x, ast.expr) and not isinstance(x, ast.expr_context)) \
                        and not ({x.id for x in ast.walk(st.targets[0]) if isinstance(x, ast.Name)} & _names_loaded(cnode)):
                    body = self._instantiate(helper, cnode, st.targets[0], tag)
                    if body is None:
                        cnode._no_inline = True
                        continue
                    return pre + body, None, True
                if whole and isinstance(st, ast.Return):
                    # `return helper(..)`: the helper's body takes the place of the statement, its returns stay returns
                    body = self._instantiate(helper, cnode, '__return__', tag)
                    if body is None:
                        cnode._no_inline = True
                        continue
                    return pre + body, None, True
                if whole and isinstance(st, ast.Expr):
                    body = self._instantiate(helper, cnode, None, tag)
                    if body is None:
                        cnode._no_inline = True
                        continue
                    return pre + body, None, True
                tmp = f"__r{self.counter}"
                body = self._instantiate(helper, cnode, tmp, tag)
                if body is None:
                    cnode._no_inline = True
                    continue
                pre.extend(body)
                repl = ast.copy_location(ast.Name(id=tmp, ctx=ast.Load()), cnode)

                class R(ast.NodeTransformer):
                    def visit_Call(self, node):
                        if node is cnode:
                            return repl
                        return self.generic_visit(node)
                e = R().visit(e)
                setattr(st, fld, e)
                changed = True
        return pre, st, changed

    @staticmethod
    def _returns_param_bound_to(helper: ast.FunctionDef, call: ast.Call, target: str) -> bool:
        """`x = h(.., x, ..)` where h ends in `return p` for the parameter p that receives x, and x occurs nowhere
        else in the call: the helper body can then work on x itself."""
        if _count_loads(call, target) != 1 or call.keywords:
            return False
        body = helper.body
        rets = [n for n in ast.walk(helper) if isinstance(n, ast.Return)]
        if len(rets) != 1 or not body or rets[0] is not body[-1] or not isinstance(rets[0].value, ast.Name):
            return False
        params = [p.arg for p in helper.args.args]
        r = rets[0].value.id
        if r not in params:
            return False
        k = params.index(r)
        return k < len(call.args) and isinstance(call.args[k], ast.Name) and call.args[k].id == target

    def inline_expression_helpers(self, fn: ast.FunctionDef, nested, resolver) -> bool:
        """Helpers whose body is a single `return <expr>`: the call is replaced by the expression with the
        arguments substituted for the parameters (each parameter is used at most once, or its argument is a name,
        constant or side-effect free expression).  Valid in every position, also under `and`/`or`."""
        outer = self
        changed = False

        class T(ast.NodeTransformer):
            def visit_FunctionDef(self, node):
                if node is fn:
                    self.generic_visit(node)
                return node

            def visit_Call(self, node):
                nonlocal changed
                self.generic_visit(node)
                h = resolver(node, nested)
                if h is None:
                    return node
                body = [b for b in h.body if not (isinstance(b, ast.Expr) and isinstance(b.value, ast.Constant))]
                if len(body) != 1 or not isinstance(body[0], ast.Return) or body[0].value is None:
                    return node
                a = h.args
                if a.vararg or a.kwarg or a.posonlyargs or a.kwonlyargs or node.keywords \
                        or any(isinstance(x, ast.Starred) for x in node.args):
                    return node
                params = [p.arg for p in a.args]
                if len(node.args) != len(params):
                    return node
                expr = copy.deepcopy(body[0].value)
                if any(isinstance(n, (ast.Lambda, ast.ListComp, ast.GeneratorExp, ast.SetComp, ast.DictComp))
                       for n in ast.walk(expr)):
                    return node
                for p, arg in zip(params, node.args):
                    uses = _count_loads(expr, p)
                    if uses > 1 and not _is_pure_expr(arg):
                        return node
                m = dict(zip(params, node.args))

                class S(ast.NodeTransformer):
                    def visit_Name(self, n):
                        if n.id in m and isinstance(n.ctx, ast.Load):
                            return copy.deepcopy(m[n.id])
                        return n
                new = S().visit(expr)
                for n in ast.walk(new):
                    if hasattr(n, 'lineno') or isinstance(n, (ast.expr,)):
                        ast.copy_location(n, node)
                changed = True
                return new
        T().visit(fn)
        ast.fix_missing_locations(fn)
        return changed

    def _find_call(self, e, fn, nested, resolver):
        # innermost-first so that arguments are inlined before the call that uses them
        for n in self._postorder(e):
            if isinstance(n, ast.Call) and not getattr(n, '_no_inline', False):
                h = resolver(n, nested)
                if h is not None:
                    return h, n
        return None

    def _postorder(self, e):
        if isinstance(e, (ast.Lambda, ast.ListComp, ast.GeneratorExp, ast.SetComp, ast.DictComp)):
            return                # repeatedly / lazily evaluated: leave alone
        if isinstance(e, ast.BoolOp):
            yield from self._postorder(e.values[0])     # only the first operand is always evaluated
            return
        if isinstance(e, ast.IfExp):
            yield from self._postorder(e.test)
            return
        for c in ast.iter_child_nodes(e):
            yield from self._postorder(c)
        yield e

    def _instantiate(self, helper: ast.FunctionDef, call: ast.Call, target: Optional[str], tag: str):
        a = helper.args
        if a.vararg or a.posonlyargs or a.kwonlyargs:
            return None
        kw_alias = None
        if a.kwarg:
            # `def h(x, **kw)` called as `h(x, **K)` with K a plain name, kw only read (splatted on, .get, [..] loads, `in`):
            # kw is another name for a copy of K that nothing distinguishes from K
            splats = [k for k in call.keywords if k.arg is None]
            if len(splats) != 1 or len(call.keywords) != 1 or not isinstance(splats[0].value, ast.Name):
                return None
            kwn = a.kwarg.arg
            for n in ast.walk(helper):
                if isinstance(n, ast.Name) and n.id == kwn and not isinstance(n.ctx, ast.Load):
                    return None
                if isinstance(n, ast.Subscript) and isinstance(n.value, ast.Name) and n.value.id == kwn and not isinstance(n.ctx, ast.Load):
                    return None
                if isinstance(n, ast.Call) and isinstance(n.func, ast.Attribute) and isinstance(n.func.value, ast.Name) \
                        and n.func.value.id == kwn and n.func.attr not in ('get', 'keys', 'items', 'values', 'copy'):
                    return None
                if isinstance(n, ast.Call) and not (isinstance(n.func, ast.Attribute) and isinstance(n.func.value, ast.Name)
                                                    and n.func.value.id == kwn):
                    # handed on as a positional argument (the callee might change it): only the splat form is accepted
                    if any(isinstance(x, ast.Name) and x.id == kwn for x in n.args) \
                            or any(k.arg is not None and isinstance(k.value, ast.Name) and k.value.id == kwn for k in n.keywords):
                        return None
            kw_alias = (kwn, splats[0].value)
        elif any(k.arg is None for k in call.keywords):
            return None
        if any(isinstance(x, ast.Starred) for x in call.args):
            return None
        params = [p.arg for p in a.args]
        bound: Dict[str, ast.expr] = {}
        call_args = list(call.args)
        if getattr(call, '_receiver', None) is not None:
            call_args = [call._receiver] + call_args          # `self.method(..)`: the receiver is the first argument
        if len(call_args) > len(params):
            return None
        for p, x in zip(params, call_args):
            bound[p] = x
        for k in call.keywords:
            if k.arg is None and kw_alias is not None:
                continue
            if k.arg not in params or k.arg in bound:
                return None
            bound[k.arg] = k.value
        if kw_alias is not None:
            params = params + [kw_alias[0]]
            bound[kw_alias[0]] = kw_alias[1]
        defaults = dict(zip([p.arg for p in a.args][len(a.args) - len(a.defaults):], a.defaults))
        for p in params:
            if p not in bound:
                if p not in defaults:
                    return None
                bound[p] = copy.deepcopy(defaults[p])
        body = copy.deepcopy(helper.body)
        if body and isinstance(body[0], ast.Expr) and isinstance(body[0].value, ast.Constant) \
                and isinstance(body[0].value.value, str):
            body = body[1:]
        locals_ = set(params) | mutated_names(ast.Module(body=body, type_ignores=[]), calls=False) \
            | _comp_targets(ast.Module(body=body, type_ignores=[]))
        for n in ast.walk(ast.Module(body=body, type_ignores=[])):
            if isinstance(n, (ast.Global, ast.Nonlocal, ast.Yield, ast.YieldFrom)):
                return None
        mapping = {v: f"{v}{tag}" for v in locals_}
        rets = [n for n in ast.walk(ast.Module(body=body, type_ignores=[])) if isinstance(n, ast.Return)]
        if isinstance(target, str) and target != '__return__' and len(rets) == 1 and body and rets[0] is body[-1] and isinstance(rets[0].value, ast.Name) \
                and rets[0].value.id in locals_:
            r = rets[0].value.id
            if r in params and isinstance(bound[r], ast.Name) and bound[r].id == target:
                mapping[r] = target
            elif not (r in params and isinstance(bound[r], (ast.Name, ast.Constant))
                      and r not in mutated_names(ast.Module(body=body, type_ignores=[]), calls=False)):
                free_h = {n.id for n in ast.walk(ast.Module(body=body, type_ignores=[])) if isinstance(n, ast.Name)} - locals_
                if target not in free_h and target not in locals_ - {r}:
                    mapping[r] = target
        # parameters that are never re-assigned in the helper and whose argument is a plain name or constant
        # are substituted directly
        reassigned = _stored_names(ast.Module(body=body, type_ignores=[]))     # re-bound names (not element stores)
        binds: List[ast.stmt] = []
        direct: Dict[str, ast.expr] = {}
        for p in params:
            arg = bound[p]
            if p not in reassigned and isinstance(arg, (ast.Name, ast.Constant)):
                direct[p] = arg
            else:
                binds.append(_fix(ast.Assign(targets=[ast.Name(id=mapping[p], ctx=ast.Store())], value=arg), call))
        if target == '__return__':
            body2 = list(body)
            if not terminates(body2):
                body2.append(_fix(ast.Return(value=ast.Constant(value=None)), call))
        else:
            body2 = _ret_to_assign(body, target, call)
        if body2 is None:
            return None
        mod = ast.Module(body=body2, type_ignores=[])
        # rename locals (but not the result target, which lives in the caller)
        ren = {k: v for k, v in mapping.items() if k not in direct}

        class RN(ast.NodeTransformer):
            def visit_Name(self, node):
                if node.id in direct and isinstance(node.ctx, ast.Load):
                    return ast.copy_location(copy.deepcopy(direct[node.id]), node)
                if node.id in ren and not getattr(node, '_result', False):
                    return ast.copy_location(ast.Name(id=ren[node.id], ctx=node.ctx), node)
                return node

            def visit_FunctionDef(self, node):
                return node

            def _aliases(self, node):
                # names bound by an import are locals of the helper like any other
                for al in node.names:
                    local = al.asname or al.name.split('.')[0]
                    if local in ren:
                        al.asname = ren[local]
                return node

            def visit_Import(self, node):
                return self._aliases(node)

            def visit_ImportFrom(self, node):
                return self._aliases(node)

            def visit_ExceptHandler(self, node):
                if node.name and node.name in ren:
                    node.name = ren[node.name]
                return self.generic_visit(node)
        mod = RN().visit(mod)
        for n in ast.walk(mod):
            # the marks are per instantiation: a body that is inlined again later must have its names renamed
            if isinstance(n, ast.Name) and getattr(n, '_result', False):
                n._result = False
        # all statements report at the call site's line (the helper body's own lines belong to another function)
        for n in ast.walk(mod):
            if hasattr(n, 'lineno'):
                n.lineno = call.lineno
                n.end_lineno = getattr(call, 'end_lineno', call.lineno)
                n.col_offset = call.col_offset
                n.end_col_offset = getattr(call, 'end_col_offset', call.col_offset)
        body3 = [b for b in binds + mod.body
                 if not (isinstance(b, ast.Assign) and len(b.targets) == 1 and isinstance(b.targets[0], ast.Name)
                         and isinstance(b.value, ast.Name) and b.value.id == b.targets[0].id)]
        return body3 or [_fix(ast.Pass(), call)]


def _helper_ok(h: ast.FunctionDef, name: str, limit: int = MAX_HELPER_STMTS) -> bool:
    if name in ANCHORS or name in UNITS or h.decorator_list:
        return False
    n_stmts = sum(1 for n in ast.walk(h) if isinstance(n, ast.stmt)) - 1
    if n_stmts > limit:
        return False
    for n in ast.walk(h):
        if isinstance(n, ast.Call) and isinstance(n.func, ast.Name) and n.func.id == h.name:
            return False           # recursive
        if isinstance(n, (ast.FunctionDef, ast.Lambda, ast.ClassDef)) and n is not h:
            return False
    return True


# ----------------------------------------------------------------------------------------------
# driver
# ----------------------------------------------------------------------------------------------

def _module_helpers(tree: ast.Module, backend: bool = False, private_module: bool = False) -> Dict[str, ast.FunctionDef]:
    """Small loop-free module-level functions that are not units of analysis.  In the library modules only private
    ones (leading underscore); in the kernel modules (pyspike/cython/*) any small function that is not an anchor and
    is not one of the kernels themselves (those contain loops)."""
    out = {}
    for st in tree.body:
        if isinstance(st, ast.FunctionDef) and not st.name.startswith('__') \
                and (st.name.startswith('_') or private_module
                     or (backend and len([x for x in ast.walk(st) if isinstance(x, ast.stmt)]) <= 9)) \
                and _helper_ok(st, st.name):
            # module-level helper: it must not be a unit of analysis (see ANCHORS); un-prefixed helpers of the kernel
            # modules are loop-free (the kernels themselves are the functions with loops)
            if not st.name.startswith('_') and not private_module and any(isinstance(n, (ast.For, ast.While)) for n in ast.walk(st)):
                continue
            out[st.name] = st
    return out


def _module_bindings(tree: ast.Module) -> Dict[str, str]:
    """top-level name -> description of what it is bound to (for checking that a helper's free names mean the
    same thing in the importing module)"""
    out: Dict[str, str] = {}
    for n in ast.walk(tree):
        if isinstance(n, ast.Import):
            for a in n.names:
                out[a.asname or a.name.split('.')[0]] = 'import ' + a.name
        elif isinstance(n, ast.ImportFrom):
            for a in n.names:
                out[a.asname or a.name] = f'from {n.module} import {a.name}'
    for st in tree.body:
        if isinstance(st, (ast.FunctionDef, ast.ClassDef)):
            out[st.name] = f'def {st.name}'
    return out


def normalize_function(fn: ast.FunctionDef, module_helpers: Dict[str, ast.FunctionDef],
                       outer_nested: Optional[Dict[str, ast.FunctionDef]] = None,
                       class_helpers: Optional[Dict[str, ast.FunctionDef]] = None):
    """Normalise one function in place (nested functions are normalised first and then inlined)."""
    nested: Dict[str, ast.FunctionDef] = {}
    for st in ast.walk(fn):
        if isinstance(st, ast.FunctionDef) and st is not fn:
            pass
    # direct children definitions anywhere in the body (not inside deeper functions)

    def collect(block):
        for s in block:
            if isinstance(s, ast.FunctionDef):
                nested[s.name] = s
            elif not isinstance(s, ast.ClassDef):
                for b in _blocks_of(s):
                    collect(b)
    collect(fn.body)
    outer_nested = dict(outer_nested or {})
    for nm, h in nested.items():
        visible = dict(outer_nested)
        visible.update({k: v for k, v in nested.items() if v is not h})
        normalize_function(h, module_helpers, visible)
    fn_locals = mutated_names(fn, calls=False) | _fn_params(fn)
    value_uses: Dict[str, int] = {}
    for n in ast.walk(fn):
        if isinstance(n, ast.Name) and isinstance(n.ctx, ast.Load) and n.id in nested:
            value_uses[n.id] = value_uses.get(n.id, 0) + 1
    call_uses: Dict[str, int] = {}
    for n in ast.walk(fn):
        if isinstance(n, ast.Call) and isinstance(n.func, ast.Name) and n.func.id in nested:
            call_uses[n.func.id] = call_uses.get(n.func.id, 0) + 1

    class_helpers = class_helpers or {}
    self_name = fn.args.args[0].arg if fn.args.args else None

    def resolver(call: ast.Call, _nested):
        f = call.func
        if isinstance(f, ast.Attribute) and isinstance(f.value, ast.Name) and f.value.id == self_name \
                and f.attr in class_helpers and class_helpers[f.attr] is not fn and self_name not in (fn_locals - {self_name}):
            # a private method of the same class, called on the same object
            h = class_helpers[f.attr]
            call._receiver = ast.Name(id=self_name, ctx=ast.Load())
            return h
        if not isinstance(f, ast.Name):
            return None
        if f.id in nested:
            h = nested[f.id]
            if not _helper_ok(h, f.id):
                return None
            if value_uses.get(f.id, 0) != call_uses.get(f.id, 0):
                return None          # also passed around as a value
            # a closure reads the caller's variables at call time: same thing after inlining
            return h
        if f.id in outer_nested and f.id not in fn_locals and outer_nested[f.id] is not fn:
            h = outer_nested[f.id]
            if not _helper_ok(h, f.id):
                return None
            h_locals = _fn_params(h) | mutated_names(h, calls=False) | _comp_targets(h)
            free = {n.id for n in ast.walk(h) if isinstance(n, ast.Name)} - h_locals
            if free & fn_locals:
                return None          # a closure variable of the helper would be captured by a local of this function
            return h
        if f.id in module_helpers and f.id not in fn_locals and module_helpers[f.id] is not fn:
            h = module_helpers[f.id]
            # the helper's free names must not be captured by the caller's locals
            h_locals = _fn_params(h) | mutated_names(h, calls=False) | _comp_targets(h)
            free = {n.id for n in ast.walk(h) if isinstance(n, ast.Name)} - h_locals
            if free & fn_locals:
                return None
            return h
        return None

    inl = _HelperInliner(None, None)
    res_ = resolver
    if fn.name in ANCHORS:
        # a unit of analysis keeps its calls of other units and of its own nested definitions (the rules anchored on it
        # follow them themselves); a private module-level helper that was split off it is still part of it
        def res_(call, _nested, _r=resolver):
            f_ = call.func
            if not (isinstance(f_, ast.Name) and f_.id.startswith('_') and f_.id not in ANCHORS and f_.id not in UNITS
                    and f_.id not in nested and f_.id in module_helpers):
                return None
            h_ = module_helpers[f_.id]
            # a pure selector (comparisons, min / max, returns of its arguments - the thresholded interpolation moved to
            # module level) is a unit of its own: the rules that decide it on weak orderings follow the call
            # (a predicate - every value it returns is a comparison, a connective of comparisons or True / False - is not)
            def boolean(e_):
                return isinstance(e_, ast.Compare) or (isinstance(e_, ast.Constant) and isinstance(e_.value, bool)) \
                    or (isinstance(e_, ast.BoolOp) and all(boolean(v_) for v_ in e_.values)) \
                    or (isinstance(e_, ast.UnaryOp) and isinstance(e_.op, ast.Not))
            rets_ = [n_ for n_ in ast.walk(h_) if isinstance(n_, ast.Return)]
            predicate = bool(rets_) and all(n_.value is not None and boolean(n_.value) for n_ in rets_)
            if not predicate and not any(isinstance(n_, (ast.BinOp, ast.AugAssign)) for n_ in ast.walk(h_)) \
                    and all(isinstance(n_.func, ast.Name) and n_.func.id in ('min', 'max', 'fmin', 'fmax')
                            for n_ in ast.walk(h_) if isinstance(n_, ast.Call)):
                return None
            return _r(call, _nested)
    for _ in range(4):
        ch = inl.inline_expression_helpers(fn, nested, res_)
        ch = inl.inline_in(fn, nested, res_) or ch
        if not ch:
            break
    # drop nested helper definitions that are no longer referenced

    def drop(block):
        keep = []
        for s in block:
            if isinstance(s, ast.FunctionDef) and s.name in nested:
                refs = sum(1 for n in ast.walk(fn) if isinstance(n, ast.Name) and n.id == s.name)
                if refs == 0:
                    continue
            elif not isinstance(s, (ast.FunctionDef, ast.ClassDef)):
                for b in _blocks_of(s):
                    drop(b)
            keep.append(s)
        block[:] = keep or [ast.Pass()]
    drop(fn.body)
    ast.fix_missing_locations(fn)

    def arity_of(call: ast.Call) -> Optional[int]:
        f_ = call.func
        h_ = None
        if isinstance(f_, ast.Name):
            h_ = nested.get(f_.id) or module_helpers.get(f_.id) or ARITY_HELPERS.get(f_.id)
        if h_ is None:
            return None
        rets = [n_ for n_ in ast.walk(h_) if isinstance(n_, ast.Return)]
        inner = {id(n_) for d_ in ast.walk(h_) if isinstance(d_, (ast.FunctionDef, ast.Lambda)) and d_ is not h_ for n_ in ast.walk(d_)}
        rets = [r_ for r_ in rets if id(r_) not in inner]
        if rets and all(isinstance(r_.value, ast.Tuple) for r_ in rets) and len({len(r_.value.elts) for r_ in rets}) == 1:
            return len(rets[0].value.elts)
        return None

    _hoist_walrus(fn)
    _strip_pass(fn.body)
    _kwargs_rebuild_to_store(fn)
    _unhoist_conditional_temps(fn)
    fn.body = _expand_ifexp(fn.body)
    _CmpDirFn(fn)
    _NegIndexFn(fn)
    _accumulations(fn)
    prev = None
    for _round in range(4):
        _invalidate()
        _kwargs_rebuild_to_store(fn)
        fn.body = _expand_ifexp(fn.body)
        fn.body = _orient(fn.body, False, True)
        fn.body = _select_minmax(fn.body)
        _version_params(fn)
        if _scalarize_small_arrays(fn):
            _drop_dead_defs(fn)
        for st in fn.body:
            _LenTests().visit(st)
            _SortMinMaxArgs().visit(st)
        _invalidate()
        _dissolve_name_bundles(fn)
        _unroll_loop_over_names(fn)
        _expand_small_slice_store(fn)
        _split_chained_assign(fn)
        _merge_nested_ifs(fn)
        _fold_none_default(fn)
        _fuse_tag_dispatch(fn)
        _drop_self_assign(fn)
        _repack_indexed_result(fn, arity_of)
        _append_loops_to_comprehension(fn)
        _conditional_override_to_select(fn)
        while _dissolve_selection_list(fn):
            pass
        _drop_zero_store_into_fresh_cell(fn)
        _enumerate_to_range(fn)
        _element_loop_to_range(fn)
        _duplicate_tail_into_arms(fn)
        _index_to_element_comprehensions(fn)
        _sink_update_into_defs(fn)
        _extend_to_augassign(fn)
        _fuse_ifs(fn.body)
        _order_block(fn.body)
        _invalidate()
        _hoist_common_return(fn)
        _sink_return_into_adjusting_arms(fn)
        fn.body = _branch_motion(fn.body)
        _invalidate()
        _while_to_for(fn)
        _pair_combinations(fn, COMBINATIONS)
        _unroll_comprehension_loops(fn)
        _invalidate()
        for _ in range(8):
            # names introduced by inlining are first identified with the caller's names they are copied into (so that a
            # value the caller keeps in a variable stays in that variable), only then are temporaries substituted
            ch = False
            while _coalesce_copies(fn) or _coalesce_generated(fn) or _coalesce_select(fn):
                ch = True
            ch = _inline_temps(fn, True) or ch
            ch = _forward_across_increments(fn) or ch
            while _coalesce_copies(fn) or _coalesce_generated(fn) or _coalesce_select(fn) or _coalesce_bound_copy(fn) or _coalesce_else_copy(fn) or _coalesce_default_select(fn) or _forward_adjacent_copy(fn):
                ch = True
            ch = _reuse_values(fn) or ch
            ch = _sink_defs_into_branches(fn) or ch
            if not ch:
                ch = _inline_temps(fn, False)   # copies of generated names that coalescing could not remove
            ch = _forward_tuple_temps(fn) or ch
            _invalidate()
            if not ch:
                break
        for st in fn.body:
            _SliceObjects().visit(st)
        _order_block(fn.body)
        ast.fix_missing_locations(fn)
        cur = ast.dump(fn)
        if cur == prev:
            break
        prev = cur
    _CmpDirFn(fn)           # (operands of `and` / `or` are ordered by what they are after the substitutions)
    body_ = [b for b in fn.body if not (isinstance(b, ast.Expr) and isinstance(b.value, ast.Constant))]
    if len(body_) == 1 and isinstance(body_[0], ast.Return):
        return              # an expression helper stays one expression (it is inlined as such, also into `elif` tests)
    _lengths_of_like_arrays(fn)
    _name_lengths(fn)


def _strip_pass(block: List[ast.stmt]):
    for st in block:
        if isinstance(st, (ast.FunctionDef, ast.ClassDef)):
            continue
        for b in _blocks_of(st):
            _strip_pass(b)
    keep = [s for s in block if not isinstance(s, ast.Pass)]
    if keep:
        block[:] = keep


def _NegIndexFn(fn: ast.FunctionDef):
    class T(_NegIndex):
        def visit_FunctionDef(self, node):
            if node is fn:
                self.generic_visit(node)
            return node
    T().visit(fn)


def _CmpDirFn(fn: ast.FunctionDef):
    stores: Dict[str, int] = {}
    for n in ast.walk(fn):
        if isinstance(n, ast.Name) and isinstance(n.ctx, (ast.Store, ast.Del)):
            stores[n.id] = stores.get(n.id, 0) + 1
    once = set()
    for n in ast.walk(fn):
        if isinstance(n, ast.Assign) and len(n.targets) == 1 and isinstance(n.targets[0], ast.Name) \
                and stores.get(n.targets[0].id) == 1 and _is_count_expr(n.value) \
                and any(isinstance(x, ast.Call) for x in ast.walk(n.value)) \
                and n.targets[0].id not in _fn_params(fn):
            once.add(n.targets[0].id)

    class T(_CmpDir):
        int_names = frozenset(once)

        def visit_FunctionDef(self, node):
            if node is fn:
                self.generic_visit(node)
            return node
    T().visit(fn)


def _modern_syntax(tree: ast.Module):
    """N44: what type hints, keyword spelling and f-strings add to a program without changing it is removed: annotations of
    parameters / results, `x: T = v` is `x = v` (a bare `x: T` is nothing), a keyword argument of a call of a package
    function whose definitions all have the same positional parameters is the positional argument it names (when the
    keywords fill the next positions without a gap), `f"a{x!s}"` is `"a" + str(x)`, `[a, *rest, b]` is `[a] + list... `
    (left to the canonicaliser)."""
    class T(ast.NodeTransformer):
        def visit_FunctionDef(self, node):
            self.generic_visit(node)
            for a in node.args.args + node.args.kwonlyargs + node.args.posonlyargs:
                a.annotation = None
            if node.args.vararg:
                node.args.vararg.annotation = None
            if node.args.kwarg:
                node.args.kwarg.annotation = None
            node.returns = None
            if not node.body:
                node.body = [ast.Pass()]
            return node

        def visit_AnnAssign(self, node):
            self.generic_visit(node)
            if node.value is None:
                return ast.copy_location(ast.Pass(), node)
            return ast.copy_location(ast.Assign(targets=[node.target], value=node.value), node)

        def visit_JoinedStr(self, node):
            self.generic_visit(node)
            parts = []
            for v in node.values:
                if isinstance(v, ast.Constant):
                    parts.append(v)
                elif isinstance(v, ast.FormattedValue) and v.format_spec is None and v.conversion == 115:
                    parts.append(ast.Call(func=ast.Name(id='str', ctx=ast.Load()), args=[v.value], keywords=[]))
                else:
                    return node
            if not parts:
                return ast.copy_location(ast.Constant(value=''), node)
            e = parts[0]
            for p_ in parts[1:]:
                e = ast.BinOp(left=e, op=ast.Add(), right=p_)
            return ast.copy_location(e, node)

        def visit_Call(self, node):
            self.generic_visit(node)
            named = [k for k in node.keywords if k.arg is not None]
            if not named or any(isinstance(a, ast.Starred) for a in node.args):
                return node
            f = node.func
            nm = f.id if isinstance(f, ast.Name) else (f.attr if isinstance(f, ast.Attribute) else None)
            sigs = SIGNATURES.get(nm) if nm else None
            if not sigs or any(sg is None for sg in sigs) or len({tuple(sg) for sg in sigs}) != 1:
                return node
            params = sigs[0]
            p = len(node.args)
            names = [k.arg for k in named]
            if p + len(named) > len(params) or set(names) != set(params[p:p + len(named)]) or len(set(names)) != len(names):
                return node
            in_order = names == params[p:p + len(named)]
            if not in_order and not all(_is_pure_expr(k.value) for k in named):
                return node
            by = {k.arg: k.value for k in named}
            node.args = list(node.args) + [by[q] for q in params[p:p + len(named)]]
            node.keywords = [k for k in node.keywords if k.arg is None]
            return node
    T().visit(tree)
    ast.fix_missing_locations(tree)


def _hoist_walrus(fn: ast.FunctionDef) -> bool:
    """N45: an assignment expression `(v := E)` that is evaluated unconditionally as part of a simple statement or of the test of
    an `if` - not behind an `and` / `or` operand, a conditional expression, a comprehension or a lambda - with E side-effect
    free is the statement `v = E` in front, the expression reads v."""
    changed = False

    def unconditional(root: ast.AST, target: ast.NamedExpr) -> bool:
        def rec(n) -> bool:
            if n is target:
                return True
            if isinstance(n, (ast.Lambda, ast.ListComp, ast.SetComp, ast.DictComp, ast.GeneratorExp)):
                return False
            if isinstance(n, ast.BoolOp):
                return rec(n.values[0])
            if isinstance(n, ast.IfExp):
                return rec(n.test)
            return any(rec(c) for c in ast.iter_child_nodes(n))
        return rec(root)

    def visit(block):
        nonlocal changed
        k = 0
        while k < len(block):
            st = block[k]
            if isinstance(st, (ast.FunctionDef, ast.ClassDef)):
                k += 1
                continue
            root = None
            if isinstance(st, ast.If):
                root = st.test
            elif isinstance(st, (ast.Assign, ast.AugAssign, ast.Return, ast.Expr)) and st.value is not None:
                root = st.value
            hoisted = False
            if root is not None:
                for n in ast.walk(root):
                    if isinstance(n, ast.NamedExpr) and isinstance(n.target, ast.Name) and _is_pure_expr(n.value) \
                            and not any(isinstance(m, ast.NamedExpr) for m in ast.walk(n.value)) and unconditional(root, n):
                        new = _fix(ast.Assign(targets=[ast.Name(id=n.target.id, ctx=ast.Store())], value=n.value), st)

                        class R(ast.NodeTransformer):
                            def visit_NamedExpr(self, node):
                                if node is n:
                                    return ast.copy_location(ast.Name(id=n.target.id, ctx=ast.Load()), node)
                                self.generic_visit(node)
                                return node
                        if isinstance(st, ast.If):
                            st.test = R().visit(st.test)
                        else:
                            st.value = R().visit(st.value)
                        block.insert(k, new)
                        changed = True
                        hoisted = True
                        break
            if hoisted:
                continue
            for b in _blocks_of(st):
                visit(b)
            k += 1
    visit(fn.body)
    if changed:
        ast.fix_missing_locations(fn)
        _invalidate()
    return changed


def _unhoist_conditional_temps(fn: ast.FunctionDef) -> bool:
    """N50: `x = A if c else B` at the top level of the function - x assigned nowhere else, the expression made of names,
    literals, + - *, comparisons, max / min / abs and subscripts only (nothing that could fail where the guarded spelling
    does not: no division, no other call), and nothing it reads stored or mutated behind it - is a value computed ahead of
    its uses (a loop invariant moved out of the loop): every use is the expression itself."""
    changed = False
    stores: Dict[str, int] = {}
    for n in ast.walk(fn):
        if isinstance(n, ast.Name) and isinstance(n.ctx, (ast.Store, ast.Del)):
            stores[n.id] = stores.get(n.id, 0) + 1
    if any(isinstance(n, (ast.Global, ast.Nonlocal)) for n in ast.walk(fn)):
        return False

    def safe(e: ast.AST) -> bool:
        for n in ast.walk(e):
            if isinstance(n, (ast.Name, ast.Constant, ast.Load, ast.IfExp, ast.Compare, ast.cmpop, ast.BoolOp, ast.boolop,
                              ast.Subscript, ast.UnaryOp, ast.unaryop, ast.Add, ast.Sub, ast.Mult)):
                continue
            if isinstance(n, ast.BinOp) and isinstance(n.op, (ast.Add, ast.Sub, ast.Mult)):
                continue
            if isinstance(n, ast.Call) and isinstance(n.func, ast.Name) and n.func.id in ('max', 'min', 'abs', 'len') \
                    and not n.keywords and not any(isinstance(a, ast.Starred) for a in n.args):
                continue
            return False
        return True
    k = 0
    while k < len(fn.body):
        st = fn.body[k]
        if isinstance(st, ast.Assign) and len(st.targets) == 1 and isinstance(st.targets[0], ast.Name) \
                and isinstance(st.value, ast.IfExp) and stores.get(st.targets[0].id) == 1 \
                and st.targets[0].id not in _fn_params(fn) and safe(st.value):
            x = st.targets[0].id
            reads = _names_loaded(st.value)
            tail = fn.body[k + 1:]
            later = set()
            for t in tail:
                later |= mutated_names(t)
            before_uses = any(isinstance(n, ast.Name) and n.id == x for b in fn.body[:k] for n in ast.walk(b))
            nested_fn = any(isinstance(n, (ast.FunctionDef, ast.Lambda)) for t in tail for n in ast.walk(t))
            n_uses = sum(1 for t in tail for n in ast.walk(t) if isinstance(n, ast.Name) and n.id == x and isinstance(n.ctx, ast.Load))
            # (only a value that a loop consumes: a straight-line use is left to the ordinary expansion of conditional expressions)
            in_loop = any(isinstance(n, ast.Name) and n.id == x for t in tail for lp in ast.walk(t) if isinstance(lp, (ast.For, ast.While))
                          for b_ in lp.body for n in ast.walk(b_))
            # (... and only ever copied into another variable - `v = x`, `v = e if c else x` -: a value that is an operand of
            # something else stays the named local that the unchanged code has too)
            copied = 0
            for t in tail:
                for a_ in ast.walk(t):
                    if isinstance(a_, ast.Assign) and len(a_.targets) == 1 and isinstance(a_.targets[0], ast.Name):
                        v_ = a_.value
                        arms_ = [v_]
                        while arms_ and isinstance(arms_[-1], ast.IfExp):
                            last_ = arms_.pop()
                            arms_ += [last_.body, last_.orelse]
                        copied += sum(1 for e_ in arms_ if isinstance(e_, ast.Name) and e_.id == x)
            if x not in reads and not (reads & later) and not before_uses and not nested_fn and 1 <= n_uses <= 6 and in_loop \
                    and copied == n_uses:
                for t in tail:
                    _Subst(x, st.value).visit(t)
                del fn.body[k]
                changed = True
                continue
        k += 1
    if changed:
        ast.fix_missing_locations(fn)
        _invalidate()
    return changed


def _fold_index_offsets(node: ast.AST):
    """inside subscripts (indices and slice bounds are integers): `(i - 1) + 1` is `i`, `(i + 2) - 1` is `i + 1`"""
    class F(ast.NodeTransformer):
        def visit_BinOp(self, n):
            self.generic_visit(n)
            if isinstance(n.op, (ast.Add, ast.Sub)) and isinstance(n.right, ast.Constant) and type(n.right.value) is int \
                    and isinstance(n.left, ast.BinOp) and isinstance(n.left.op, (ast.Add, ast.Sub)) \
                    and isinstance(n.left.right, ast.Constant) and type(n.left.right.value) is int:
                c = (n.left.right.value if isinstance(n.left.op, ast.Add) else -n.left.right.value) \
                    + (n.right.value if isinstance(n.op, ast.Add) else -n.right.value)
                if c == 0:
                    return n.left.left
                return ast.copy_location(ast.BinOp(left=n.left.left, op=ast.Add() if c > 0 else ast.Sub(),
                                                   right=ast.Constant(value=abs(c))), n)
            return n

    class S(ast.NodeTransformer):
        def visit_Subscript(self, n):
            self.generic_visit(n)
            n.slice = F().visit(n.slice)
            return n
    S().visit(node)


def _sink_return_into_adjusting_arms(fn: ast.FunctionDef) -> bool:
    """N51: the function ends `if c: <arm> else: <arm>` + `return E` where an arm is nothing but `w -= k` / `w += k` (an
    integer literal k) of a local that E reads: that arm is `return E[w := w -/+ k]` (the update is dead behind it), the
    other arm ends in `return E` - the form of an early return with the adjusted result spelled out."""
    body = fn.body
    if len(body) < 2 or not isinstance(body[-1], ast.Return) or body[-1].value is None or not isinstance(body[-2], ast.If):
        return False
    node, ret = body[-2], body[-1]
    if any(isinstance(n, (ast.Global, ast.Nonlocal, ast.FunctionDef, ast.Lambda)) for st in body for n in ast.walk(st) if n is not fn):
        return False
    arms = [node.body, node.orelse]
    if any(isinstance(st, ast.If) for a in arms for st in a) or any(terminates(a) for a in arms if a):
        return False
    E = ret.value
    if not _is_pure_expr(E):
        return False

    def adjust(arm) -> Optional[ast.expr]:
        if not arm:
            return None
        e = copy.deepcopy(E)
        for st in arm:
            if not (isinstance(st, ast.AugAssign) and isinstance(st.target, ast.Name) and isinstance(st.op, (ast.Add, ast.Sub))
                    and isinstance(st.value, ast.Constant) and type(st.value.value) is int
                    and st.target.id in _names_loaded(E) and st.target.id not in _fn_params(fn)):
                return None
            e = _Subst(st.target.id, ast.BinOp(left=ast.Name(id=st.target.id, ctx=ast.Load()), op=type(st.op)(),
                                               right=copy.deepcopy(st.value))).visit(e)
        return e
    adj = [adjust(a) for a in arms]
    if all(a is None for a in adj):
        # the same with a result temporary: both arms define `r = E_k` (a plain, side-effect free definition) and r is read by
        # the return expression only - `return E[r := E_k]` per arm (what an epilogue helper that returns the trimmed
        # index looks like once it is folded in)
        if not (node.body and node.orelse) or not all(isinstance(st, (ast.Assign, ast.AugAssign, ast.Expr)) for a in arms for st in a):
            return False
        cands = None
        for a in arms:
            names = {st.targets[0].id for st in a if isinstance(st, ast.Assign) and len(st.targets) == 1
                     and isinstance(st.targets[0], ast.Name)}
            cands = names if cands is None else cands & names
        for r in sorted(cands or ()):
            if r in _fn_params(fn) or r not in _names_loaded(E):
                continue
            arm_nodes = {id(n) for a in arms for st in a for n in ast.walk(st)} | {id(n) for n in ast.walk(ret)}
            if any(isinstance(n, ast.Name) and n.id == r and id(n) not in arm_nodes for n in ast.walk(fn)):
                continue
            plan = []
            for a in arms:
                defs = [k for k, st in enumerate(a) if _stores(st, r)]
                if len(defs) != 1 or not _plain_def(a[defs[0]], r):
                    plan = None
                    break
                d = defs[0]
                Er = a[d].value
                if not _is_pure_expr(Er) or r in _names_loaded(Er) \
                        or any(r in _names_loaded(st) for k, st in enumerate(a) if k != d):
                    plan = None
                    break
                after = set()
                for st in a[d + 1:]:
                    after |= mutated_names(st, calls=False)
                if after & _names_loaded(Er):
                    plan = None
                    break
                plan.append((a, d, Er))
            if not plan:
                continue
            for a, d, Er in plan:
                rr = ast.copy_location(ast.Return(value=_Subst(r, Er).visit(copy.deepcopy(E))), ret)
                _fold_index_offsets(rr)
                del a[d]
                a.append(rr)
            del body[-1]
            ast.fix_missing_locations(fn)
            _invalidate()
            return True
        return False
    if not all(isinstance(st, (ast.Assign, ast.AugAssign, ast.Expr)) for a in arms for st in a):
        return False
    for a, e in zip(arms, adj):
        if e is not None:
            r = ast.copy_location(ast.Return(value=e), ret)
            _fold_index_offsets(r)
            a[:] = [r]
        else:
            a.append(copy.deepcopy(ret))
    del body[-1]
    ast.fix_missing_locations(fn)
    _invalidate()
    return True


def _fold_none_default(fn: ast.FunctionDef) -> bool:
    """N58: `x = None` ... `if x is None: BODY else: ELSE` in the same block with no store of x in between is BODY (an
    optional parameter of a folded-in helper that the caller left at its default); the definition goes when BODY
    re-binds x before reading it and nothing else reads it before."""
    changed = False

    def visit(block):
        nonlocal changed
        for st in block:
            if isinstance(st, (ast.FunctionDef, ast.ClassDef)):
                continue
            for b in _blocks_of(st):
                visit(b)
        k = 0
        while k < len(block):
            st = block[k]
            if isinstance(st, ast.Assign) and len(st.targets) == 1 and isinstance(st.targets[0], ast.Name) \
                    and isinstance(st.value, ast.Constant) and st.value.value is None:
                x = st.targets[0].id
                j = k + 1
                while j < len(block) and not _stores(block[j], x) and x not in _names_loaded(block[j]) \
                        and not isinstance(block[j], (ast.FunctionDef, ast.ClassDef, ast.While, ast.For)):
                    j += 1
                if j < len(block) and isinstance(block[j], ast.If):
                    t_ = block[j].test
                    if isinstance(t_, ast.Compare) and len(t_.ops) == 1 and isinstance(t_.left, ast.Name) and t_.left.id == x \
                            and isinstance(t_.comparators[0], ast.Constant) and t_.comparators[0].value is None \
                            and isinstance(t_.ops[0], (ast.Is, ast.IsNot)):
                        taken = block[j].body if isinstance(t_.ops[0], ast.Is) else block[j].orelse
                        taken = [s_ for s_ in taken if not isinstance(s_, ast.Pass)]
                        first_reads = any(x in _names_loaded(s_) for s_ in taken[:1])
                        rebinds = bool(taken) and _stores(taken[0], x) and not first_reads
                        block[j:j + 1] = taken
                        if rebinds:
                            del block[k]
                        changed = True
                        continue
            k += 1
    visit(fn.body)
    if changed:
        if not fn.body:
            fn.body.append(ast.Pass())
        ast.fix_missing_locations(fn)
        _invalidate()
    return changed


def _fuse_tag_dispatch(fn: ast.FunctionDef) -> bool:
    """N57: `if A: t = 1 elif B: t = 2 else: t = 0` directly followed by `if t == 1: X elif t == 2: Y else: Z` - t a local
    that nothing else reads, the tags distinct literals - is `if A: X elif B: Y else: Z` (a selector helper that names
    the case, folded in, and the dispatch on its answer)."""
    changed = False
    loads: Dict[str, int] = {}
    for n in ast.walk(fn):
        if isinstance(n, ast.Name) and isinstance(n.ctx, ast.Load):
            loads[n.id] = loads.get(n.id, 0) + 1

    def chain(node: ast.If):
        arms, cur = [], node
        while True:
            arms.append((cur.test, cur.body))
            if len(cur.orelse) == 1 and isinstance(cur.orelse[0], ast.If):
                cur = cur.orelse[0]
                continue
            return arms, cur.orelse

    def visit(block):
        nonlocal changed
        for st in block:
            if isinstance(st, (ast.FunctionDef, ast.ClassDef)):
                continue
            for b in _blocks_of(st):
                visit(b)
        k = 0
        while k + 1 < len(block):
            a, b = block[k], block[k + 1]
            if isinstance(a, ast.If) and isinstance(b, ast.If) and a.orelse and b.orelse:
                arms1, else1 = chain(a)
                arms2, else2 = chain(b)
                bodies1 = [bd for _, bd in arms1] + [else1]

                def tag_of(bd):
                    if len(bd) == 1 and isinstance(bd[0], ast.Assign) and len(bd[0].targets) == 1 and isinstance(bd[0].targets[0], ast.Name) \
                            and isinstance(bd[0].value, ast.Constant) and isinstance(bd[0].value.value, (int, str)) \
                            and not isinstance(bd[0].value.value, bool):
                        return bd[0].targets[0].id, bd[0].value.value
                    return None
                tags = [tag_of(bd) for bd in bodies1]
                if all(t is not None for t in tags) and len({t[0] for t in tags}) == 1 and len({t[1] for t in tags}) == len(tags):
                    tname = tags[0][0]
                    tests2 = []
                    ok_ = tname not in _fn_params(fn)
                    for t_, _bd in arms2:
                        if isinstance(t_, ast.Compare) and len(t_.ops) == 1 and isinstance(t_.ops[0], ast.Eq) \
                                and isinstance(t_.left, ast.Name) and t_.left.id == tname and isinstance(t_.comparators[0], ast.Constant):
                            tests2.append(t_.comparators[0].value)
                        else:
                            ok_ = False
                    # t is read by the tests of the second chain only
                    if ok_ and loads.get(tname, 0) == len(arms2) and not any(
                            isinstance(n, ast.Name) and n.id == tname for _t, bd in arms2 for s_ in bd for n in ast.walk(s_)) \
                            and not any(isinstance(n, ast.Name) and n.id == tname for s_ in else2 for n in ast.walk(s_)):
                        def body_for(c):
                            for tv, (_t, bd) in zip(tests2, arms2):
                                if type(tv) is type(c) and tv == c:
                                    return bd
                            return else2
                        used = []
                        new_arms = []
                        for (tst, _bd), (_n, c) in zip(arms1, tags):
                            new_arms.append((tst, copy.deepcopy(body_for(c))))
                        new_else = copy.deepcopy(body_for(tags[-1][1]))
                        node = None
                        cur_else = new_else
                        for tst, bd in reversed(new_arms):
                            node = _fix(ast.If(test=tst, body=bd or [ast.Pass()], orelse=cur_else), a)
                            cur_else = [node]
                        block[k:k + 2] = [node]
                        changed = True
                        continue
            k += 1
    visit(fn.body)
    if changed:
        ast.fix_missing_locations(fn)
        _invalidate()
    return changed


def _explicit_checks(tree: ast.Module):
    """N48: a check written out is the assertion it stands for: `if C: raise AssertionError(msg)` (with or without an else
    part) is `assert not C, msg` followed by the else part; `not not X` is X."""
    def is_assertion_raise(st):
        if not (isinstance(st, ast.Raise) and st.cause is None and st.exc is not None):
            return None
        e = st.exc
        if isinstance(e, ast.Name) and e.id == 'AssertionError':
            return (None,)
        if isinstance(e, ast.Call) and isinstance(e.func, ast.Name) and e.func.id == 'AssertionError' and not e.keywords \
                and len(e.args) <= 1 and not any(isinstance(a, ast.Starred) for a in e.args):
            return (e.args[0] if e.args else None,)
        return None

    def negate(c):
        if isinstance(c, ast.UnaryOp) and isinstance(c.op, ast.Not):
            return c.operand
        return ast.copy_location(ast.UnaryOp(op=ast.Not(), operand=c), c)

    def visit(block):
        out = []
        for st in block:
            if isinstance(st, (ast.FunctionDef, ast.ClassDef)):
                visit_into(st)
                out.append(st)
                continue
            for b in _blocks_of(st):
                b[:] = visit(b) or [ast.copy_location(ast.Pass(), st)]
            if isinstance(st, ast.If) and len(st.body) == 1:
                r = is_assertion_raise(st.body[0])
                if r is not None:
                    out.append(ast.copy_location(ast.Assert(test=negate(st.test), msg=r[0]), st))
                    out.extend(s_ for s_ in st.orelse if not isinstance(s_, ast.Pass))
                    continue
            if isinstance(st, ast.If) and len(st.orelse) == 1 and st.body:
                r = is_assertion_raise(st.orelse[0])
                if r is not None:
                    out.append(ast.copy_location(ast.Assert(test=st.test, msg=r[0]), st))
                    out.extend(s_ for s_ in st.body if not isinstance(s_, ast.Pass))
                    continue
            out.append(st)
        # N49: a predicate that answers in steps is the conjunction / disjunction it computes:
        # `if C: return False` + `return E` is `return (not C) and E`; `if C: return True` + `return E` is `return C or E`
        # (C a comparison or a negation, so that the value returned is the same object True / False)
        while len(out) >= 2 and isinstance(out[-1], ast.Return) and out[-1].value is not None and isinstance(out[-2], ast.If) \
                and not out[-2].orelse and len(out[-2].body) == 1 and isinstance(out[-2].body[0], ast.Return) \
                and isinstance(out[-2].body[0].value, ast.Constant) and isinstance(out[-2].body[0].value.value, bool) \
                and not any(isinstance(x, ast.NamedExpr) for x in ast.walk(out[-2].test)):
            c, e, v = out[-2].test, out[-1].value, out[-2].body[0].value.value
            def boolean(x):
                return isinstance(x, ast.Compare) or (isinstance(x, ast.UnaryOp) and isinstance(x.op, ast.Not)) \
                    or (isinstance(x, ast.BoolOp) and all(boolean(y) for y in x.values))

            def join(op, parts):
                vals = []
                for p_ in parts:
                    vals.extend(p_.values if isinstance(p_, ast.BoolOp) and isinstance(p_.op, op) else [p_])
                return ast.BoolOp(op=op(), values=vals)
            if v is False:
                new = join(ast.And, [negate(c), e])
            elif boolean(c):
                new = join(ast.Or, [c, e])
            else:
                break
            out[-2:] = [ast.copy_location(ast.Return(value=ast.copy_location(new, c)), out[-2])]
        return out

    def visit_into(node):
        node.body[:] = visit(node.body) or [ast.Pass()]
    visit_into(tree)
    ast.fix_missing_locations(tree)


def _kwargs_rebuild_to_store(fn: ast.FunctionDef) -> bool:
    """N52 on one function (also run after helpers were folded in)"""
    kw = fn.args.kwarg.arg if fn.args.kwarg else None
    if not kw:
        return False
    changed = False

    def rewrite(block):
        nonlocal changed
        out = []
        for st in block:
            if isinstance(st, (ast.FunctionDef, ast.ClassDef)):
                out.append(st)
                continue
            for b in _blocks_of(st):
                b[:] = rewrite(b) or [ast.copy_location(ast.Pass(), st)]
            if isinstance(st, ast.Assign) and len(st.targets) == 1 and isinstance(st.targets[0], ast.Name) and st.targets[0].id == kw:
                v = st.value
                items = None
                if isinstance(v, ast.Call) and isinstance(v.func, ast.Name) and v.func.id == 'dict' and len(v.args) == 1 \
                        and isinstance(v.args[0], ast.Name) and v.args[0].id == kw and v.keywords \
                        and all(k.arg is not None for k in v.keywords):
                    items = [(ast.Constant(value=k.arg), k.value) for k in v.keywords]
                elif isinstance(v, ast.Dict) and len(v.keys) >= 2 and v.keys[0] is None and isinstance(v.values[0], ast.Name) \
                        and v.values[0].id == kw and all(isinstance(k, ast.Constant) and isinstance(k.value, str) for k in v.keys[1:]):
                    items = list(zip(v.keys[1:], v.values[1:]))
                if items is not None and not any(kw in _names_loaded(val) for _, val in items):
                    for key, val in items:
                        out.append(_fix(ast.Assign(targets=[ast.Subscript(value=ast.Name(id=kw, ctx=ast.Load()), slice=key,
                                                                          ctx=ast.Store())], value=val), st))
                    changed = True
                    continue
            # N56: `x = g(D if x is None else x)` is `if x is None: x = D` + `x = g(x)`
            if isinstance(st, ast.Assign) and len(st.targets) == 1 and isinstance(st.targets[0], ast.Name) \
                    and isinstance(st.value, ast.Call) and len(st.value.args) == 1 and not st.value.keywords \
                    and isinstance(st.value.args[0], ast.IfExp) and _is_pure_expr(st.value.func):
                x, ie = st.targets[0].id, st.value.args[0]
                t_ = ie.test
                is_none = isinstance(t_, ast.Compare) and len(t_.ops) == 1 and isinstance(t_.left, ast.Name) and t_.left.id == x \
                    and isinstance(t_.comparators[0], ast.Constant) and t_.comparators[0].value is None
                if is_none and isinstance(t_.ops[0], ast.Is) and isinstance(ie.orelse, ast.Name) and ie.orelse.id == x \
                        and x not in _names_loaded(st.value.func):
                    out.append(_fix(ast.If(test=t_, body=[_fix(ast.Assign(targets=[ast.Name(id=x, ctx=ast.Store())], value=ie.body), st)],
                                           orelse=[]), st))
                    st.value.args[0] = ast.copy_location(ast.Name(id=x, ctx=ast.Load()), ie)
                    changed = True
                elif is_none and isinstance(t_.ops[0], ast.IsNot) and isinstance(ie.body, ast.Name) and ie.body.id == x \
                        and x not in _names_loaded(st.value.func):
                    t2 = ast.copy_location(ast.Compare(left=t_.left, ops=[ast.Is()], comparators=t_.comparators), t_)
                    out.append(_fix(ast.If(test=t2, body=[_fix(ast.Assign(targets=[ast.Name(id=x, ctx=ast.Store())], value=ie.orelse), st)],
                                           orelse=[]), st))
                    st.value.args[0] = ast.copy_location(ast.Name(id=x, ctx=ast.Load()), ie)
                    changed = True
            out.append(st)
        return out
    fn.body[:] = rewrite(fn.body) or [ast.Pass()]
    if changed:
        ast.fix_missing_locations(fn)
        _invalidate()
    return changed


def _keyword_plumbing(tree: ast.Module):
    """N52: `kwargs = dict(kwargs, K=v)` / `kwargs = {**kwargs, 'K': v}` on the function's own `**kwargs` dictionary (nobody
    else holds it) is `kwargs['K'] = v`.  N53: a nested `def g(a, b, **kw): return f(a, b, k=v, **kw)` - the positional
    parameters handed on in order, keywords bound to names of the enclosing function that are not assigned behind the
    definition - is `g = partial(f, k=v)`."""
    need_partial = False

    def visit_fn(fn: ast.FunctionDef):
        nonlocal need_partial
        kw = fn.args.kwarg.arg if fn.args.kwarg else None

        def rewrite(block):
            out = []
            for k_, st in enumerate(block):
                if isinstance(st, (ast.FunctionDef, ast.ClassDef)):
                    out.append(st)
                    continue
                for b in _blocks_of(st):
                    b[:] = rewrite(b) or [ast.copy_location(ast.Pass(), st)]
                if kw and isinstance(st, ast.Assign) and len(st.targets) == 1 and isinstance(st.targets[0], ast.Name) \
                        and st.targets[0].id == kw:
                    v = st.value
                    items = None
                    if isinstance(v, ast.Call) and isinstance(v.func, ast.Name) and v.func.id == 'dict' and len(v.args) == 1 \
                            and isinstance(v.args[0], ast.Name) and v.args[0].id == kw and v.keywords \
                            and all(k.arg is not None for k in v.keywords):
                        items = [(ast.Constant(value=k.arg), k.value) for k in v.keywords]
                    elif isinstance(v, ast.Dict) and len(v.keys) >= 2 and v.keys[0] is None and isinstance(v.values[0], ast.Name) \
                            and v.values[0].id == kw and all(isinstance(k, ast.Constant) and isinstance(k.value, str) for k in v.keys[1:]):
                        items = list(zip(v.keys[1:], v.values[1:]))
                    if items is not None and not any(kw in _names_loaded(val) for _, val in items):
                        for key, val in items:
                            out.append(_fix(ast.Assign(targets=[ast.Subscript(value=ast.Name(id=kw, ctx=ast.Load()), slice=key,
                                                                              ctx=ast.Store())], value=val), st))
                        continue
                out.append(st)
            return out
        fn.body[:] = rewrite(fn.body) or [ast.Pass()]
        # closures that only bind keywords
        stores_after: Dict[int, Set[str]] = {}

        def closures(block):
            nonlocal need_partial
            for k_, st in enumerate(block):
                if isinstance(st, ast.FunctionDef):
                    g = st
                    body = [b for b in g.body if not (isinstance(b, ast.Expr) and isinstance(b.value, ast.Constant))]
                    a = g.args
                    if len(body) == 1 and isinstance(body[0], ast.Return) and isinstance(body[0].value, ast.Call) \
                            and isinstance(body[0].value.func, ast.Name) and not g.decorator_list \
                            and not a.vararg and not a.kwonlyargs and not a.posonlyargs and not a.defaults and a.kwarg:
                        call = body[0].value
                        ps = [x.arg for x in a.args]
                        kws = [k for k in call.keywords if k.arg is not None]
                        stars = [k for k in call.keywords if k.arg is None]
                        later = set()
                        for t in block[k_ + 1:]:
                            later |= mutated_names(t)
                        if [ast.unparse(x) for x in call.args] == ps and len(stars) == 1 and isinstance(stars[0].value, ast.Name) \
                                and stars[0].value.id == a.kwarg.arg and call.keywords[-1] is stars[0] and kws \
                                and all(isinstance(k.value, (ast.Name, ast.Constant)) for k in kws) \
                                and not any(isinstance(k.value, ast.Name) and (k.value.id in ps or k.value.id == a.kwarg.arg
                                                                             or k.value.id in later) for k in kws) \
                                and call.func.id != g.name and call.func.id not in ps:
                            new = ast.Assign(targets=[ast.Name(id=g.name, ctx=ast.Store())],
                                             value=ast.Call(func=ast.Name(id='partial', ctx=ast.Load()),
                                                            args=[ast.Name(id=call.func.id, ctx=ast.Load())],
                                                            keywords=[ast.keyword(arg=k.arg, value=k.value) for k in kws]))
                            block[k_] = _fix(new, g)
                            need_partial = True
                            continue
                    visit_fn(st)
                elif not isinstance(st, ast.ClassDef):
                    for b in _blocks_of(st):
                        closures(b)
        closures(fn.body)
        # N55: a keyword dictionary built once from names / literals, never changed, and only ever unpacked into calls
        # (`kw = dict(a=a, b=False)` ... `f(x, **kw)`) is those keywords at the calls
        k_ = 0
        while k_ < len(fn.body):
            st = fn.body[k_]
            items = None
            if isinstance(st, ast.Assign) and len(st.targets) == 1 and isinstance(st.targets[0], ast.Name):
                v = st.value
                if isinstance(v, ast.Call) and isinstance(v.func, ast.Name) and v.func.id == 'dict' and not v.args and v.keywords \
                        and all(k.arg is not None for k in v.keywords):
                    items = [(k.arg, k.value) for k in v.keywords]
                elif isinstance(v, ast.Dict) and v.keys and all(isinstance(k, ast.Constant) and isinstance(k.value, str)
                                                                and k.value.isidentifier() for k in v.keys):
                    items = [(k.value, val) for k, val in zip(v.keys, v.values)]
            if items is not None and all(isinstance(val, (ast.Name, ast.Constant)) for _, val in items):
                D = st.targets[0].id
                tail = fn.body[k_ + 1:]
                later = set()
                for t in tail:
                    later |= mutated_names(t, calls=False)      # (`**D` hands out a copy; the values are names / literals)
                uses = [n for t in tail for n in ast.walk(t) if isinstance(n, ast.Name) and n.id == D]
                stars = [kw_ for t in tail for c in ast.walk(t) if isinstance(c, ast.Call) for kw_ in c.keywords
                         if kw_.arg is None and isinstance(kw_.value, ast.Name) and kw_.value.id == D]
                n_defs = sum(1 for n in ast.walk(fn) if isinstance(n, ast.Name) and n.id == D and isinstance(n.ctx, ast.Store))
                before = any(isinstance(n, ast.Name) and n.id == D for b in fn.body[:k_] for n in ast.walk(b))
                nested_def = any(isinstance(n, (ast.FunctionDef, ast.Lambda)) for t in tail for n in ast.walk(t))
                if uses and len(uses) == len(stars) and n_defs == 1 and not before and not nested_def and D not in later \
                        and D != kw and D not in _fn_params(fn) \
                        and not any(isinstance(val, ast.Name) and val.id in later for _, val in items):
                    ok_ = True
                    for t in tail:
                        for c in ast.walk(t):
                            if isinstance(c, ast.Call) and any(kw_ in stars for kw_ in c.keywords):
                                given = {kw_.arg for kw_ in c.keywords if kw_.arg}
                                if given & {k for k, _ in items} or sum(1 for kw_ in c.keywords if kw_.arg is None) != 1:
                                    ok_ = False
                    if ok_:
                        for t in tail:
                            for c in ast.walk(t):
                                if isinstance(c, ast.Call) and any(kw_ in stars for kw_ in c.keywords):
                                    c.keywords = [kw_ for kw_ in c.keywords if kw_ not in stars] + \
                                        [ast.keyword(arg=k, value=copy.deepcopy(val)) for k, val in items]
                        del fn.body[k_]
                        continue
            k_ += 1

    def top(block):
        for st in block:
            if isinstance(st, ast.FunctionDef):
                visit_fn(st)
            elif isinstance(st, ast.ClassDef):
                top(st.body)
            elif isinstance(st, (ast.If, ast.Try)):
                for b in _blocks_of(st):
                    top(b)
    bound = {(a.asname or a.name).split('.')[0] for n in ast.walk(tree) if isinstance(n, (ast.Import, ast.ImportFrom)) for a in n.names}
    has_partial = any(isinstance(n, ast.ImportFrom) and n.module == 'functools' and any((a.asname or a.name) == 'partial' for a in n.names)
                      for n in ast.walk(tree))
    other_partial = ('partial' in bound and not has_partial) or any(
        (isinstance(n, ast.Name) and n.id == 'partial' and isinstance(n.ctx, ast.Store)) or
        (isinstance(n, (ast.FunctionDef, ast.ClassDef)) and n.name == 'partial') or (isinstance(n, ast.arg) and n.arg == 'partial')
        for n in ast.walk(tree))
    if other_partial:
        return
    top(tree.body)
    if need_partial and not has_partial:
        imp = ast.ImportFrom(module='functools', names=[ast.alias(name='partial', asname=None)], level=0)
        pos = 0
        while pos < len(tree.body) and ((isinstance(tree.body[pos], ast.Expr) and isinstance(tree.body[pos].value, ast.Constant))
                                        or (isinstance(tree.body[pos], ast.ImportFrom) and tree.body[pos].module == '__future__')):
            pos += 1
        if tree.body:
            ast.copy_location(imp, tree.body[0])
        tree.body.insert(pos, imp)
    ast.fix_missing_locations(tree)


def _is_effect_free_prefix(expr: ast.AST, call: ast.Call) -> bool:
    """`call` is the first thing that `expr` evaluates: it is `expr` itself, or the object of the outermost call chain
    (`f()(args)`, `f()(args).m(x)`): nothing with an effect is evaluated in front of its function position"""
    cur = expr
    while True:
        if cur is call:
            return True
        if isinstance(cur, ast.Call):
            cur = cur.func
        elif isinstance(cur, ast.Attribute):
            cur = cur.value
        elif isinstance(cur, ast.Tuple) and cur.elts:
            cur = cur.elts[0]
        else:
            return False


def _inline_backend_loaders(tree: ast.Module):
    """N54: the backend selection factored into a loader.  (A) `def _load(): try: from M import f as impl / except
    ImportError: <stmts>; from M2 import g as impl / return impl` called as `X = _load()` is that try statement with the
    alias X at the call site.  (B) `def _load(): try: from M import f / except ImportError: return None / return f` (or
    `from P import mod` ... `return getattr(mod, name)` with a literal name at the call site) called as `X = _load(..)` in
    front of `if X is not None: A else: B` is `try: from M import f as X; A / except ImportError: B`."""
    loaders: Dict[str, tuple] = {}
    for st in tree.body:
        if not isinstance(st, ast.FunctionDef) or st.decorator_list:
            continue
        body = [b for b in st.body if not (isinstance(b, ast.Expr) and isinstance(b.value, ast.Constant))]
        if not body or not isinstance(body[0], ast.Try) or len(body) > 2:
            continue
        tr = body[0]
        if tr.orelse or tr.finalbody or len(tr.handlers) != 1 or not isinstance(tr.handlers[0].type, ast.Name) \
                or tr.handlers[0].type.id != 'ImportError' or tr.handlers[0].name:
            continue
        tb, hb = list(tr.body), list(tr.handlers[0].body)
        # returns inside the arms are the same thing as one return behind the try statement
        ret_t = ret_h = None
        if len(body) == 2:
            if not (isinstance(body[1], ast.Return) and body[1].value is not None):
                continue
            ret_t = ret_h = body[1].value
            if hb and isinstance(hb[-1], ast.Return):
                ret_h = hb[-1].value
                hb = hb[:-1]
        else:
            if not (tb and isinstance(tb[-1], ast.Return) and hb and isinstance(hb[-1], ast.Return)):
                continue
            ret_t, ret_h = tb[-1].value, hb[-1].value
            tb, hb = tb[:-1], hb[:-1]
        if ret_t is None or ret_h is None:
            continue
        if not (len(tb) == 1 and isinstance(tb[0], ast.ImportFrom) and len(tb[0].names) == 1):
            continue
        imp = tb[0]
        bound = imp.names[0].asname or imp.names[0].name
        a = st.args
        if a.vararg or a.kwarg or a.kwonlyargs or a.posonlyargs or a.defaults:
            continue
        none_h = isinstance(ret_h, ast.Constant) and ret_h.value is None and not hb
        if not a.args and isinstance(ret_t, ast.Name) and ret_t.id == bound and hb and isinstance(hb[-1], ast.ImportFrom) \
                and len(hb[-1].names) == 1 and isinstance(ret_h, ast.Name) \
                and (hb[-1].names[0].asname or hb[-1].names[0].name) == ret_h.id \
                and not any(isinstance(n, (ast.Return, ast.FunctionDef, ast.Lambda)) for h_ in hb for n in ast.walk(h_)) \
                and not any({bound, ret_h.id} & _names_loaded(h_) for h_ in hb[:-1]):
            loaders[st.name] = ('A', st, imp, hb, bound)
        elif none_h:
            if not a.args and isinstance(ret_t, ast.Name) and ret_t.id == bound:
                loaders[st.name] = ('B', st, imp, None, bound)
            elif len(a.args) == 1 and isinstance(ret_t, ast.Call) and isinstance(ret_t.func, ast.Name) \
                    and ret_t.func.id == 'getattr' and len(ret_t.args) == 2 and not ret_t.keywords \
                    and isinstance(ret_t.args[0], ast.Name) and ret_t.args[0].id == bound \
                    and isinstance(ret_t.args[1], ast.Name) and ret_t.args[1].id == a.args[0].arg:
                loaders[st.name] = ('G', st, imp, None, bound)
    if not loaders:
        return
    # a loader that is also used as a value (passed around) stays
    for n in ast.walk(tree):
        if isinstance(n, ast.Name) and n.id in loaders and isinstance(n.ctx, ast.Store):
            loaders.pop(n.id, None)

    def import_as(imp: ast.ImportFrom, kind: str, call: ast.Call, x: str) -> Optional[ast.ImportFrom]:
        if kind == 'G':
            if not (len(call.args) == 1 and isinstance(call.args[0], ast.Constant) and isinstance(call.args[0].value, str)
                    and call.args[0].value.isidentifier() and not call.keywords):
                return None
            module = ((imp.module + '.') if imp.module else '') + imp.names[0].name
            return ast.ImportFrom(module=module, names=[ast.alias(name=call.args[0].value, asname=x)], level=imp.level)
        if call.args or call.keywords:
            return None
        return ast.ImportFrom(module=imp.module, names=[ast.alias(name=imp.names[0].name, asname=x)], level=imp.level)

    def rewrite(block):
        k = 0
        while k < len(block):
            st = block[k]
            if isinstance(st, (ast.FunctionDef, ast.ClassDef)):
                if isinstance(st, ast.FunctionDef) and st.name in loaders:
                    k += 1
                    continue
                rewrite(st.body)
                k += 1
                continue
            for b in _blocks_of(st):
                rewrite(b)
            # the loader called in place (`_load()(a, b)`) first binds a name
            if isinstance(st, (ast.Assign, ast.Return, ast.Expr)) and st.value is not None:
                direct = [c for c in ast.walk(st.value) if isinstance(c, ast.Call) and isinstance(c.func, ast.Call)
                          and isinstance(c.func.func, ast.Name) and c.func.func.id in loaders and loaders[c.func.func.id][0] == 'A'
                          and not c.func.args and not c.func.keywords]
                if len(direct) == 1 and _is_effect_free_prefix(st.value, direct[0]):
                    nm = f"{direct[0].func.func.id.lstrip('_')}__impl"
                    bind = _fix(ast.Assign(targets=[ast.Name(id=nm, ctx=ast.Store())], value=direct[0].func), st)
                    direct[0].func = ast.copy_location(ast.Name(id=nm, ctx=ast.Load()), direct[0].func)
                    block.insert(k, bind)
                    st = bind
            if isinstance(st, ast.Assign) and len(st.targets) == 1 and isinstance(st.targets[0], ast.Name) \
                    and isinstance(st.value, ast.Call) and isinstance(st.value.func, ast.Name) and st.value.func.id in loaders:
                kind, ld, imp, hb, bound = loaders[st.value.func.id]
                x = st.targets[0].id
                if kind == 'A':
                    i1 = import_as(imp, 'A', st.value, x)
                    if i1 is not None:
                        h2 = [copy.deepcopy(h_) for h_ in hb[:-1]]
                        last = hb[-1]
                        h2.append(ast.ImportFrom(module=last.module, names=[ast.alias(name=last.names[0].name, asname=x)], level=last.level))
                        new = ast.Try(body=[i1], handlers=[ast.ExceptHandler(type=ast.Name(id='ImportError', ctx=ast.Load()), name=None,
                                                                              body=h2)], orelse=[], finalbody=[])
                        block[k] = _fix(new, st)
                        k += 1
                        continue
                elif k + 1 < len(block) and isinstance(block[k + 1], ast.If):
                    nxt = block[k + 1]
                    t_ = nxt.test
                    if isinstance(t_, ast.Compare) and len(t_.ops) == 1 and isinstance(t_.ops[0], ast.IsNot) \
                            and isinstance(t_.left, ast.Name) and t_.left.id == x and isinstance(t_.comparators[0], ast.Constant) \
                            and t_.comparators[0].value is None:
                        i1 = import_as(imp, kind, st.value, x)
                        if i1 is not None:
                            new = ast.Try(body=[i1] + nxt.body,
                                          handlers=[ast.ExceptHandler(type=ast.Name(id='ImportError', ctx=ast.Load()), name=None,
                                                                      body=nxt.orelse or [ast.Pass()])], orelse=[], finalbody=[])
                            block[k:k + 2] = [_fix(new, st)]
                            k += 1
                            continue
            k += 1
    rewrite(tree.body)
    # loaders that are no longer referenced are gone
    refs = {n.id for n in ast.walk(tree) if isinstance(n, ast.Name)}
    tree.body[:] = [st for st in tree.body if not (isinstance(st, ast.FunctionDef) and st.name in loaders and st.name not in refs)]
    ast.fix_missing_locations(tree)


def normalize_module(tree: ast.Module, imported_helpers: Optional[Dict[str, ast.FunctionDef]] = None,
                     backend: bool = False) -> ast.Module:
    _specialise_flags(tree)
    _explicit_checks(tree)
    _keyword_plumbing(tree)
    _inline_backend_loaders(tree)
    _modern_syntax(tree)
    helpers = dict(imported_helpers or {})
    helpers.update(_module_helpers(tree, backend))
    COMBINATIONS.clear()
    for n in ast.walk(tree):
        if isinstance(n, ast.ImportFrom) and n.module == 'itertools':
            COMBINATIONS.update(a.asname or a.name for a in n.names if a.name == 'combinations')

    # N29: a module-level name bound exactly once to a numeric literal (and never declared global anywhere) is that literal
    counts: Dict[str, int] = {}
    for n in ast.walk(tree):
        if isinstance(n, ast.Name) and isinstance(n.ctx, (ast.Store, ast.Del)):
            counts[n.id] = counts.get(n.id, 0) + 1
        elif isinstance(n, (ast.Global, ast.Nonlocal)):
            for g_ in n.names:
                counts[g_] = counts.get(g_, 0) + 2
        elif isinstance(n, (ast.FunctionDef, ast.ClassDef)):
            counts[n.name] = counts.get(n.name, 0) + 2
        elif isinstance(n, ast.arg):
            counts[n.arg] = counts.get(n.arg, 0) + 2
        elif isinstance(n, ast.alias):
            counts[(n.asname or n.name).split('.')[0]] = counts.get((n.asname or n.name).split('.')[0], 0) + 2
    module_consts: Dict[str, ast.expr] = {}
    for st in tree.body:
        if isinstance(st, ast.Assign) and len(st.targets) == 1 and isinstance(st.targets[0], ast.Name) \
                and counts.get(st.targets[0].id) == 1:
            v = st.value
            if isinstance(v, ast.UnaryOp) and isinstance(v.op, ast.UAdd):
                v = v.operand                                   # `+1` is 1
            if isinstance(v, ast.Constant) and isinstance(v.value, (int, float)) and not isinstance(v.value, bool):
                module_consts[st.targets[0].id] = v
            elif isinstance(v, ast.UnaryOp) and isinstance(v.op, ast.USub) and isinstance(v.operand, ast.Constant) \
                    and isinstance(v.operand.value, (int, float)) and not isinstance(v.operand.value, bool):
                module_consts[st.targets[0].id] = v             # a negative literal stays `-c`, as it is written in place
    if module_consts:
        class _Consts(ast.NodeTransformer):
            def visit_Name(self, node):
                if isinstance(node.ctx, ast.Load) and node.id in module_consts:
                    return ast.copy_location(copy.deepcopy(module_consts[node.id]), node)
                return node
        for st in tree.body:
            if isinstance(st, (ast.FunctionDef, ast.ClassDef)):
                _Consts().visit(st)

    def private_methods(cls: ast.ClassDef) -> Dict[str, ast.FunctionDef]:
        out = {}
        for m in cls.body:
            if isinstance(m, ast.FunctionDef) and m.name.startswith('_') and not m.name.startswith('__') \
                    and _helper_ok(m, m.name, 70) and m.args.args and not m.args.vararg and not m.args.kwarg:
                # not recursive (also not through another private method: checked by the bounded rounds of inlining)
                out[m.name] = m
        return out

    def visit(block):
        for st in block:
            if isinstance(st, ast.FunctionDef):
                normalize_function(st, {k: v for k, v in helpers.items() if v is not st})
            elif isinstance(st, ast.ClassDef):
                pm = private_methods(st)
                # helpers first (so that a private method used by another private method is already in normal form)
                for m in st.body:
                    if isinstance(m, ast.FunctionDef) and m.name in pm:
                        normalize_function(m, dict(helpers), None, {k: v for k, v in pm.items() if v is not m})
                for m in st.body:
                    if isinstance(m, ast.FunctionDef) and m.name not in pm:
                        normalize_function(m, dict(helpers), None, pm)
                    elif isinstance(m, ast.ClassDef):
                        visit([m])
                # private methods that are no longer referenced anywhere in the module are gone
                refs = {n.attr for n in ast.walk(tree) if isinstance(n, ast.Attribute)}
                st.body[:] = [m for m in st.body if not (isinstance(m, ast.FunctionDef) and m.name in pm and m.name not in refs)] \
                    or [ast.Pass()]
            elif isinstance(st, (ast.If, ast.Try)):
                for b in _blocks_of(st):
                    visit(b)
    visit(tree.body)
    ast.fix_missing_locations(tree)
    return tree


# ----------------------------------------------------------------------------------------------
# alpha normal form: canonical names for locals (used by comparisons of two functions, on demand)
# ----------------------------------------------------------------------------------------------

class _Webs:
    """Reaching definitions over the structured AST; definitions and uses of a local that can meet are one web."""

    def __init__(self, fn: ast.FunctionDef, names: Set[str]):
        self.fn, self.names = fn, names
        self.parent: Dict[int, int] = {}
        self.node_of: Dict[int, ast.Name] = {}
        self.entry_def: Dict[str, int] = {}

    def find(self, a: int) -> int:
        while self.parent.get(a, a) != a:
            self.parent[a] = self.parent.get(self.parent[a], self.parent[a])
            a = self.parent[a]
        return a

    def union(self, a: int, b: int):
        ra, rb = self.find(a), self.find(b)
        if ra != rb:
            self.parent[ra] = rb

    def run(self):
        state = {v: frozenset() for v in self.names}
        self._block(self.fn.body, state)

    def _uses(self, node: ast.AST, state):
        """loads inside an expression / simple statement part (evaluated before its stores)"""
        for n in ast.walk(node):
            if isinstance(n, ast.Name) and n.id in self.names and isinstance(n.ctx, ast.Load):
                self.node_of[id(n)] = n
                self.parent.setdefault(id(n), id(n))
                for d in state[n.id]:
                    self.union(id(n), d)

    def _defs(self, node: ast.AST, state):
        for n in ast.walk(node):
            if isinstance(n, ast.Name) and n.id in self.names and isinstance(n.ctx, (ast.Store, ast.Del)):
                self.node_of[id(n)] = n
                self.parent.setdefault(id(n), id(n))
                state[n.id] = frozenset([id(n)])

    def _merge(self, a, b):
        return {v: a[v] | b[v] for v in self.names}

    def _block(self, block, state):
        for s in block:
            state = self._stmt(s, state)
        return state

    def _stmt(self, s, state):
        if isinstance(s, ast.If):
            self._uses(s.test, state)
            s1 = self._block(s.body, dict(state))
            s2 = self._block(s.orelse, dict(state))
            return self._merge(s1, s2)
        if isinstance(s, (ast.While, ast.For)):
            cur = dict(state)
            for _ in range(3):
                st = dict(cur)
                if isinstance(s, ast.While):
                    self._uses(s.test, st)
                else:
                    self._uses(s.iter, st)
                    self._defs(s.target, st)
                out = self._block(s.body, dict(st))
                cur = self._merge(cur, out)
                cur = self._merge(cur, st)
            cur = self._block(s.orelse, cur) if s.orelse else cur
            return cur
        if isinstance(s, ast.Try):
            cur = self._block(s.body, dict(state))
            cur = self._merge(cur, state)
            outs = [self._block(s.orelse, dict(cur))]
            for h in s.handlers:
                outs.append(self._block(h.body, dict(cur)))
            m = outs[0]
            for o in outs[1:]:
                m = self._merge(m, o)
            return self._block(s.finalbody, m) if s.finalbody else m
        if isinstance(s, ast.With):
            for it in s.items:
                self._uses(it.context_expr, state)
                if it.optional_vars is not None:
                    self._defs(it.optional_vars, state)
            return self._block(s.body, state)
        if isinstance(s, (ast.FunctionDef, ast.ClassDef)):
            return state
        if isinstance(s, ast.AugAssign):
            self._uses(s.value, state)
            if isinstance(s.target, ast.Name) and s.target.id in self.names:
                # read-modify-write: the new definition belongs to the web of the old value
                n = s.target
                self.node_of[id(n)] = n
                self.parent.setdefault(id(n), id(n))
                for d in state[n.id]:
                    self.union(id(n), d)
                state[n.id] = frozenset([id(n)])
            else:
                self._uses(s.target, state)
            return state
        if isinstance(s, ast.Assign):
            self._uses(s.value, state)
            for t in s.targets:
                # loads inside targets (subscripts) first
                for n in ast.walk(t):
                    if isinstance(n, ast.Name) and isinstance(n.ctx, ast.Load):
                        self._uses(n, state)
                self._defs(t, state)
            return state
        # any other simple statement
        self._uses(s, state)
        self._defs(s, state)
        return state


def alpha_normalize(fn: ast.FunctionDef) -> ast.FunctionDef:
    """A copy of the function in which every local variable web (definitions and uses that can meet) has a
    canonical name `v<k>`, numbered in the order of first occurrence after the commuting statements have been
    ordered by a name-blind key.  Two functions that differ only in the choice and re-use of local names get the
    same text."""
    fn = copy.deepcopy(fn)
    params = _fn_params(fn)
    skip: Set[str] = set(params)
    for n in ast.walk(fn):
        if isinstance(n, (ast.Global, ast.Nonlocal)):
            skip |= set(n.names)
        if isinstance(n, (ast.FunctionDef, ast.Lambda)) and n is not fn:
            skip |= {m.id for m in ast.walk(n) if isinstance(m, ast.Name)}
            if isinstance(n, ast.FunctionDef):
                skip.add(n.name)
        if isinstance(n, (ast.ListComp, ast.SetComp, ast.DictComp, ast.GeneratorExp)):
            for g in n.generators:
                skip |= {m.id for m in ast.walk(g.target) if isinstance(m, ast.Name)}
        if isinstance(n, (ast.Import, ast.ImportFrom)):
            skip |= {(a.asname or a.name).split('.')[0] for a in n.names}
        if isinstance(n, ast.ExceptHandler) and n.name:
            skip.add(n.name)
    stored = {n.id for n in ast.walk(fn) if isinstance(n, ast.Name) and isinstance(n.ctx, (ast.Store, ast.Del))}
    names = stored - skip
    if not names:
        return fn
    # 1. webs
    w = _Webs(fn, names)
    w.run()
    web_of: Dict[int, int] = {i: w.find(i) for i in w.node_of}
    for i, n in w.node_of.items():
        n.id = f"{n.id}\x00{web_of[i]}"          # provisional unique name per web
    # names that were never visited (unreachable code) keep their spelling
    # 2. name-blind ordering of commuting statements

    def blind_key(st: ast.stmt) -> str:
        c = copy.deepcopy(st)
        for n in ast.walk(c):
            if isinstance(n, ast.Name) and '\x00' in n.id:
                n.id = '_'
        return _stmt_key(c)

    def order(block):
        for st in block:
            if isinstance(st, (ast.FunctionDef, ast.ClassDef)):
                continue
            for b in _blocks_of(st):
                order(b)
        n = len(block)
        for _ in range(n):
            swapped = False
            for k in range(n - 1):
                a, b = block[k], block[k + 1]
                if isinstance(a, (ast.Assign, ast.AugAssign)) and isinstance(b, (ast.Assign, ast.AugAssign)) \
                        and blind_key(b) < blind_key(a) and _commute(a, b):
                    block[k], block[k + 1] = b, a
                    _invalidate()
                    swapped = True
            if not swapped:
                break
    _invalidate()
    order(fn.body)
    # 3. canonical numbering by first occurrence (source order of the ordered tree)
    num: Dict[str, str] = {}

    def visit(node):
        for ch in ast.iter_child_nodes(node):
            if isinstance(ch, ast.Name) and '\x00' in ch.id:
                if ch.id not in num:
                    num[ch.id] = f"v{len(num) + 1}"
            visit(ch)
    # assignments: visit the value before the target?  No: numbering by definition order, target first
    visit(fn)
    for n in ast.walk(fn):
        if isinstance(n, ast.Name) and n.id in num:
            n.id = num[n.id]
    _invalidate()
    return fn
