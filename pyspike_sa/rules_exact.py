"""Exact decisions (who-may-call rule): tolerant comparisons are confined to `almost_equal`.

Every property of this library that speaks about ties - a spike time shared by both trains, a spike exactly on an
edge, an evaluation time exactly on a breakpoint, a distance exactly equal to the coincidence window, a count exactly
equal to the filter threshold - is stated for exact equality, over all inputs.  The library decides all of them with
`==`, `<`, `>` on the values themselves; the only tolerant comparisons it contains are the three `almost_equal`
methods of the function classes (np.allclose with rtol=0), which exist for tests and decide nothing.

A tolerant comparison anywhere else replaces an exact decision by one that depends on the magnitude of the operands
(np.isclose / np.allclose default to a *relative* tolerance of 1e-5 and an absolute one of 1e-8): distinct events are
fused, a time close to a breakpoint is treated as the breakpoint, a bound close to zero is treated as "no bound", and
the result is no longer invariant under a shift or a change of the time unit.  The rule therefore is: in the code a
property depends on (its scope functions and everything reachable from them by name), there is no call of
np.isclose / np.allclose / math.isclose / numpy.testing.*, and no comparison of an absolute difference with a
numeric literal - `almost_equal` excepted.
"""
from __future__ import annotations

import ast
from typing import Callable, Dict, List, Optional, Set

from . import canon as C
from .frontend import FuncInfo
from .report import Ob, ok, violation, inconclusive

TOLERANT_CALLS = {'np.isclose', 'np.allclose', 'numpy.isclose', 'numpy.allclose', 'math.isclose', 'isclose', 'allclose',
                  'np.testing.assert_allclose', 'np.testing.assert_almost_equal', 'np.testing.assert_array_almost_equal',
                  'assert_allclose', 'assert_almost_equal', 'assert_array_almost_equal', 'cmath.isclose'}
EXEMPT = {'almost_equal'}


def _fn(f: FuncInfo) -> str:
    return f"{f.path}::{f.name}"


def _own_nodes(fi: FuncInfo):
    """nodes of the function itself (nested definitions are functions of their own in the repository index)"""
    stack = list(ast.iter_child_nodes(fi.node))
    while stack:
        n = stack.pop()
        if isinstance(n, (ast.FunctionDef, ast.ClassDef)):
            continue
        yield n
        stack.extend(ast.iter_child_nodes(n))


def _small_literal(e: ast.AST, consts: Dict[str, float]) -> Optional[float]:
    if isinstance(e, ast.Constant) and isinstance(e.value, (int, float)) and not isinstance(e.value, bool):
        return float(e.value)
    if isinstance(e, ast.Name) and e.id in consts:
        return consts[e.id]
    return None


def tolerant_sites(fi: FuncInfo) -> List[tuple]:
    """[(node, description)] of tolerant comparisons made by the function itself"""
    out = []
    consts: Dict[str, float] = {}
    for n in _own_nodes(fi):
        if isinstance(n, ast.Assign) and len(n.targets) == 1 and isinstance(n.targets[0], ast.Name) \
                and isinstance(n.value, ast.Constant) and isinstance(n.value.value, float) and 0 < abs(n.value.value) < 1e-3:
            consts[n.targets[0].id] = float(n.value.value)
    for n in _own_nodes(fi):
        if isinstance(n, ast.Call):
            d = C.dotted(n.func) or ''
            if d in TOLERANT_CALLS or d.split('.')[-1] in ('isclose', 'allclose'):
                out.append((n, f"`{ast.unparse(n)[:90]}`"))
        elif isinstance(n, ast.Compare) and len(n.ops) == 1 and isinstance(n.ops[0], (ast.Lt, ast.LtE, ast.Gt, ast.GtE)):
            l, r = n.left, n.comparators[0]
            for a, b in ((l, r), (r, l)):
                if isinstance(a, ast.Call) and isinstance(a.func, (ast.Name, ast.Attribute)) \
                        and (C.dotted(a.func) or '').split('.')[-1] in ('abs', 'fabs') and len(a.args) == 1 \
                        and isinstance(a.args[0], ast.BinOp) and isinstance(a.args[0].op, ast.Sub):
                    lit = _small_literal(b, consts)
                    if lit is not None and 0 < abs(lit) < 1e-3:
                        out.append((n, f"`{ast.unparse(n)[:90]}` (an absolute difference compared with the constant {lit:g})"))
    return out


def _call_names(fi: FuncInfo) -> Set[str]:
    out = set()
    for n in _own_nodes(fi):
        if isinstance(n, ast.Call):
            if isinstance(n.func, ast.Name):
                out.add(n.func.id)
            elif isinstance(n.func, ast.Attribute):
                out.add(n.func.attr)
        elif isinstance(n, ast.Name) and isinstance(n.ctx, ast.Load):
            out.add(n.id)           # a function passed on as a value (partial, dispatch tables)
    return out


def _graph(ctx):
    def build(c):
        funcs = list(c.repo.all_functions())           # Python and .pyx sources alike
        by_last: Dict[str, List[FuncInfo]] = {}
        for f in funcs:
            by_last.setdefault(f.name.split('.')[-1], []).append(f)
        calls = {f.qual: _call_names(f) for f in funcs}
        return funcs, by_last, calls
    return ctx.get('exact-graph', build)


def r_exact_decisions(ctx, rule: str, in_scope: Callable[[FuncInfo], bool], what: str) -> List[Ob]:
    funcs, by_last, calls = _graph(ctx)
    scope = [f for f in funcs if in_scope(f) and f.name.split('.')[-1] not in EXEMPT]
    reach: Dict[str, FuncInfo] = {f.qual: f for f in scope}
    work = list(scope)
    while work:
        f = work.pop()
        for nm in calls.get(f.qual, ()):
            for g in by_last.get(nm, ()):
                if g.qual not in reach and g.name.split('.')[-1] not in EXEMPT:
                    # nested definitions belong to the function that holds them
                    reach[g.qual] = g
                    work.append(g)
    # nested functions of reachable functions
    for f in funcs:
        if '.' in f.name and f.qual not in reach:
            outer = f.qual.rsplit('.', 1)[0]
            if outer in reach and f.name.split('.')[-1] not in EXEMPT:
                reach[f.qual] = f
    obs: List[Ob] = []
    n_sites = 0
    for f in reach.values():
        for node, desc in tolerant_sites(f):
            n_sites += 1
            t = (f"{f.name} ({f.path}): decisions are taken on the values themselves - no tolerant comparison in the code that "
                 f"{what} depends on (only `almost_equal` compares up to a tolerance)")
            obs.append(violation(rule, t, f.loc(node), key=f"{_fn(f)}::tolerant::{ast.unparse(node)[:60]}",
                                 detail=f"{desc}: equality up to a relative / absolute tolerance depends on the magnitude of the times; "
                                        f"distinct values are treated as equal (ties are decided exactly everywhere else)"))
    t = f"no tolerant comparison (np.isclose, np.allclose, |a-b| < eps) decides anything in the code that {what} depends on"
    if not scope:
        obs.append(inconclusive(rule, t, 'pyspike', 'no function of the scope found', construct=f"exact::{rule}"))
    elif n_sites == 0:
        exempt_sites = sum(len(tolerant_sites(f)) for f in funcs if f.name.split('.')[-1] in EXEMPT)
        obs.append(ok(rule, t, 'pyspike', construct=f"exact::{rule}",
                      detail=f"{len(reach)} functions searched ({len(scope)} in scope, the rest reachable from them); "
                             f"{exempt_sites} tolerant comparisons in almost_equal (exempt)"))
    return obs
