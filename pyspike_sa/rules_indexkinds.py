"""Index-kind rules (engine D, domain 4): R14.2 position vs. train id, R14.3 selection size, R06.1 pair
enumeration completeness, R06.4 / R04.3 matrix fills.

Kinds:  POS = position in the `indices` array;  TID = train id (an element of `indices`).
        The train list is TID-indexed, `indices` is POS-indexed, and every container allocated with a
        `len(indices)` extent (or built by a comprehension over `indices`) is POS-indexed.
"""
from __future__ import annotations

import ast
from dataclasses import dataclass, field
from typing import Dict, List, Optional, Set, Tuple

from .frontend import FuncInfo
from .report import Ob, ok, violation, inconclusive, info
from .wrappers import WrapperModel, wrapper_model, _fn

POS, TID = 'POS', 'TID'


@dataclass
class IndexScope:
    fi: FuncInfo
    idx: str                    # name of the index array
    trains: str                 # name of the train list
    node: ast.AST               # the `if idx is None: idx = np.arange(len(trains))` statement
    pairs: Dict[str, Tuple[str, str, ast.AST]] = field(default_factory=dict)   # pair-list name -> (kind1, kind2, node)
    pos_containers: Dict[str, ast.AST] = field(default_factory=dict)


def _once_assigned(fi: FuncInfo) -> Dict[str, ast.AST]:
    cnt: Dict[str, int] = {}
    val: Dict[str, ast.AST] = {}
    for n in ast.walk(fi.node):
        if isinstance(n, ast.Name) and isinstance(n.ctx, ast.Store):
            cnt[n.id] = cnt.get(n.id, 0) + 1
        if isinstance(n, ast.Assign) and len(n.targets) == 1 and isinstance(n.targets[0], ast.Name):
            val[n.targets[0].id] = n.value
    return {k: v for k, v in val.items() if cnt.get(k) == 1}


def find_index_scope(fi: FuncInfo) -> Optional[IndexScope]:
    """The selection variable of an index-aware function: the name that receives `np.arange(len(trains))` when the
    `indices` parameter is None (the parameter itself, or a local such as `selected`), with the train list."""
    once = _once_assigned(fi)

    def len_target(e) -> Optional[str]:
        if isinstance(e, ast.Name) and e.id in once:
            e = once[e.id]
        if isinstance(e, ast.Call) and isinstance(e.func, ast.Name) and e.func.id == 'len' and len(e.args) == 1 \
                and isinstance(e.args[0], ast.Name):
            return e.args[0].id
        return None
    params = {a.arg for a in fi.node.args.args + fi.node.args.kwonlyargs}
    for n in ast.walk(fi.node):
        if not (isinstance(n, ast.If) and isinstance(n.test, ast.Compare) and isinstance(n.test.left, ast.Name) and
                len(n.test.ops) == 1 and isinstance(n.test.ops[0], (ast.Is, ast.IsNot)) and
                isinstance(n.test.comparators[0], ast.Constant) and n.test.comparators[0].value is None):
            continue
        if n.test.left.id not in params:
            continue
        none_branch = n.body if isinstance(n.test.ops[0], ast.Is) else n.orelse
        for st in none_branch:
            if isinstance(st, ast.Assign) and len(st.targets) == 1 and isinstance(st.targets[0], ast.Name):
                v = st.value
                if isinstance(v, ast.Call) and ast.unparse(v.func) in ('np.arange', 'range', 'list') and v.args:
                    a = v.args[0]
                    if isinstance(a, ast.Call) and ast.unparse(a.func) == 'range' and a.args:
                        a = a.args[0]
                    t = len_target(a)
                    if t:
                        return IndexScope(fi, st.targets[0].id, t, n)
    return None


def uses_indices_itself(fi: FuncInfo) -> bool:
    """the function has an `indices` parameter and does more with it than hand it on to another function"""
    params = {a.arg for a in fi.node.args.args + fi.node.args.kwonlyargs}
    if 'indices' not in params:
        return False
    forwarded = set()
    for n in ast.walk(fi.node):
        if isinstance(n, ast.Call):
            for a in list(n.args) + [k.value for k in n.keywords]:
                if isinstance(a, ast.Name) and a.id == 'indices':
                    forwarded.add(id(a))
    if not any(isinstance(n, ast.Name) and n.id == 'indices' and id(n) not in forwarded for n in ast.walk(fi.node)):
        return False
    # ... and enumerates something with it (a loop or a comprehension): a helper that merely validates or
    # completes the selection is analysed where it is used
    return any(isinstance(n, (ast.For, ast.ListComp, ast.GeneratorExp)) for n in ast.walk(fi.node))


def _is_len_of(e: ast.AST, name: str) -> bool:
    return isinstance(e, ast.Call) and isinstance(e.func, ast.Name) and e.func.id == 'len' and len(e.args) == 1 and \
        isinstance(e.args[0], ast.Name) and e.args[0].id == name


def classify_pairs(sc: IndexScope, comp: ast.ListComp, rule_enum: str, obs: List[Ob], order_sensitive=None,
                   rule_kind: str = 'R14.2') -> Optional[Tuple[str, str]]:
    """Kinds of the two tuple components of a pair comprehension + completeness obligations (R06.1)."""
    f = sc.fi
    fn = _fn(f)
    if len(comp.generators) != 2 or not isinstance(comp.elt, ast.Tuple) or len(comp.elt.elts) != 2:
        return None
    g1, g2 = comp.generators
    # value-filtered spelling: [(a, b) for a in idx for b in idx if a < b]
    if isinstance(g1.target, ast.Name) and isinstance(g2.target, ast.Name) and isinstance(g1.iter, ast.Name) and \
            isinstance(g2.iter, ast.Name) and g1.iter.id == sc.idx and g2.iter.id == sc.idx and not g1.ifs and len(g2.ifs) == 1 \
            and isinstance(g2.ifs[0], ast.Compare) and len(g2.ifs[0].ops) == 1:
        a, b = g1.target.id, g2.target.id
        c = g2.ifs[0]
        names = {getattr(c.left, 'id', None), getattr(c.comparators[0], 'id', None)}
        elts = [getattr(e, 'id', None) for e in comp.elt.elts]
        if names == {a, b} and set(elts) == {a, b}:
            op = c.ops[0]
            t = f"{f.name}: the pair list contains every unordered pair of selected trains exactly once"
            if isinstance(op, (ast.Lt, ast.Gt)):
                obs.append(ok(rule_enum, t, f.loc(comp), construct=f"{fn}::pairs::by-value",
                              detail='filtered by value (complete for distinct indices)'))
                t2 = (f"{f.name}: the first component of every pair is the train that comes first in `{sc.idx}` (the order of the "
                      f"selection, as in the selected sub-list)")
                sens = order_sensitive(f) if order_sensitive else None
                if sens:
                    obs.append(violation(rule_kind, t2, f.loc(comp), key=f"{fn}::pairs::oriented-by-value",
                                         detail=f"`{ast.unparse(comp)}` orients each pair by train number, not by position in `{sc.idx}`; "
                                                f"this function feeds an order-sensitive (antisymmetric) measure, so a non-ascending "
                                                f"`{sc.idx}` flips signs"))
                elif sens is False:
                    obs.append(ok(rule_kind, t2 + ' - or the measure is symmetric in the pair', f.loc(comp), construct=f"{fn}::pairs::orientation"))
                else:
                    obs.append(inconclusive(rule_kind, t2, f.loc(comp), 'order sensitivity of the consumer unknown', construct=f"{fn}::pairs::orientation"))
                return TID, TID
            obs.append(violation(rule_enum, t, f.loc(comp), key=f"{fn}::pairs::filter::{ast.unparse(c)}",
                                 detail=f"filter `{ast.unparse(c)}` does not select each unordered pair once"))
            return TID, TID
    enum_start = 0
    enum_first = isinstance(g1.target, ast.Tuple) and len(g1.target.elts) == 2 and all(isinstance(e, ast.Name) for e in g1.target.elts) \
        and isinstance(g1.iter, ast.Call) and isinstance(g1.iter.func, ast.Name) and g1.iter.func.id == 'enumerate' \
        and len(g1.iter.args) in (1, 2) and isinstance(g1.iter.args[0], ast.Name) and g1.iter.args[0].id == sc.idx
    if enum_first:
        # enumerate(idx, start=1) / enumerate(idx, 1): the counter is the position plus one
        st_ = g1.iter.args[1] if len(g1.iter.args) == 2 else next((k_.value for k_ in g1.iter.keywords if k_.arg == 'start'), None)
        if any(k_.arg != 'start' for k_ in g1.iter.keywords) or (len(g1.iter.args) == 2 and g1.iter.keywords):
            enum_first = False
        elif st_ is not None:
            if isinstance(st_, ast.Constant) and st_.value in (0, 1) and not isinstance(st_.value, bool):
                enum_start = st_.value
            else:
                enum_first = False
    if not ((isinstance(g1.target, ast.Name) or enum_first) and isinstance(g2.target, ast.Name)) or g1.ifs or g2.ifs:
        obs.append(inconclusive(rule_enum, f"{f.name}: pair comprehension has two plain generators", f.loc(comp), construct=fn))
        return None
    kinds: Dict[str, str] = {}
    if enum_first:
        # `for k, i in enumerate(idx)`: k is the position, i the train id at that position
        a, b = g1.target.elts[0].id, g2.target.id
        kinds[a] = POS
        kinds[g1.target.elts[1].id] = TID
    else:
        a, b = g1.target.id, g2.target.id
    # generator 1: for a in range(len(idx)) | range(len(idx)-1)
    it1 = g1.iter
    okg1 = enum_first
    if isinstance(it1, ast.Call) and isinstance(it1.func, ast.Name) and it1.func.id in ('range', 'xrange') and len(it1.args) == 1:
        e = it1.args[0]
        if _is_len_of(e, sc.idx):
            okg1 = True
        elif isinstance(e, ast.BinOp) and isinstance(e.op, ast.Sub) and _is_len_of(e.left, sc.idx) and \
                isinstance(e.right, ast.Constant) and e.right.value == 1:
            okg1 = True      # the last position has no partner anyway
        kinds[a] = POS
    t = f"{f.name}: outer generator of the pair list runs over every position of `{sc.idx}`"
    if okg1:
        obs.append(ok(rule_enum, t, f.loc(comp), construct=f"{fn}::pairs::outer"))
    else:
        obs.append(violation(rule_enum, t, f.loc(comp), key=f"{fn}::pairs::outer-range", detail=ast.unparse(it1)))
    # generator 2: for b in idx[a+1:]  (TID)   |   for b in range(a+1, len(idx))  (POS)
    it2 = g2.iter
    okg2 = False
    det = ast.unparse(it2)

    def is_a_plus_1(e):
        if enum_start == 1:
            return isinstance(e, ast.Name) and e.id == a          # the counter already is the next position
        return isinstance(e, ast.BinOp) and isinstance(e.op, ast.Add) and (
            (isinstance(e.left, ast.Name) and e.left.id == a and isinstance(e.right, ast.Constant) and e.right.value == 1) or
            (isinstance(e.right, ast.Name) and e.right.id == a and isinstance(e.left, ast.Constant) and e.left.value == 1))
    if isinstance(it2, ast.Subscript) and isinstance(it2.value, ast.Name) and it2.value.id == sc.idx and \
            isinstance(it2.slice, ast.Slice):
        kinds[b] = TID
        okg2 = it2.slice.lower is not None and is_a_plus_1(it2.slice.lower) and it2.slice.upper is None and it2.slice.step is None
    elif isinstance(it2, ast.Call) and isinstance(it2.func, ast.Name) and it2.func.id in ('range', 'xrange') and len(it2.args) == 2:
        kinds[b] = POS
        okg2 = is_a_plus_1(it2.args[0]) and _is_len_of(it2.args[1], sc.idx)
    t = f"{f.name}: inner generator of the pair list starts right after the outer position and runs to the end (every unordered pair once)"
    if okg2:
        obs.append(ok(rule_enum, t, f.loc(comp), construct=f"{fn}::pairs::inner"))
    else:
        obs.append(violation(rule_enum, t, f.loc(comp), key=f"{fn}::pairs::inner-range", detail=det))

    def kind_of(e) -> Optional[str]:
        if isinstance(e, ast.Name):
            return kinds.get(e.id)
        if isinstance(e, ast.Subscript) and isinstance(e.value, ast.Name) and e.value.id == sc.idx and isinstance(e.slice, ast.Name):
            k = kinds.get(e.slice.id)
            if k == POS:
                return TID
            return 'BAD'
        return None
    sc.generator_kinds = dict(kinds)
    k1, k2 = kind_of(comp.elt.elts[0]), kind_of(comp.elt.elts[1])
    t = f"{f.name}: both components of a pair have the same kind (two train ids or two positions)"
    if k1 in (POS, TID) and k1 == k2:
        obs.append(ok(rule_enum, t, f.loc(comp), construct=f"{fn}::pairs::kinds", detail=f"({k1}, {k2})"))
        return k1, k2
    obs.append(violation(rule_enum, t, f.loc(comp), key=f"{fn}::pairs::mixed-kinds", detail=f"({k1}, {k2}): {ast.unparse(comp.elt)}"))
    return None


def _stable_site(ctx, f: FuncInfo) -> str:
    """Identity of a function for the known-findings file: a public function is `path::name`; a private one (its name is an
    implementation detail that a clean-up may change) is identified by the public functions of the package that reach it
    (by name, through private functions only) - the construct is the same construct under any private name."""
    last = f.name.split('.')[-1]
    if not last.startswith('_') or last.startswith('__'):
        return _fn(f)

    def build(c):
        funcs = [g for g in c.repo.all_functions() if not g.is_pyx]
        refs = {}
        for g in funcs:
            names = {n.id for n in ast.walk(g.node) if isinstance(n, ast.Name)} | \
                    {n.attr for n in ast.walk(g.node) if isinstance(n, ast.Attribute)}
            refs[g.qual] = names
        return funcs, refs
    funcs, refs = ctx.get('stable-site-graph', build)
    seen, work, public = {last}, [last], set()
    while work:
        nm = work.pop()
        for g in funcs:
            gl = g.name.split('.')[0]           # (a nested function belongs to the function that holds it)
            if nm in refs[g.qual] and g.name.split('.')[-1] != nm:
                if gl.startswith('_') and not gl.startswith('__'):
                    if gl not in seen:
                        seen.add(gl)
                        work.append(gl)
                else:
                    public.add(gl)
    if not public:
        return _fn(f)
    return f"{f.path}::<private, reached from {'+'.join(sorted(public))}>"


def r14_2_index_kinds(ctx, rule: str = 'R14.2', rule_enum: str = 'R06.1', rule_size: str = 'R14.3') -> List[Ob]:
    wm = wrapper_model(ctx)
    obs: List[Ob] = []
    for f in wm.funcs:
        if '.' in f.name and not f.cls:
            continue        # nested helpers are analysed with their enclosing function
        sc = find_index_scope(f)
        if sc is None:
            if uses_indices_itself(f):
                obs.append(inconclusive(rule, f"{f.name}: the selection variable (`indices`, or all positions when it is None) is found",
                                        f.loc(), construct=_fn(f)))
            continue
        fn = _fn(f)
        # a recursive helper at module level that receives the train list / the pair function / the keywords unchanged is the
        # nested helper of this function with those names bound (see rules_reducer): its subscripts are this function's
        try:
            from .rules_reducer import _specialise_module_level_reducers
            import dataclasses
            ctx_names = tuple(a.arg for a in f.node.args.args) + ((f.node.args.kwarg.arg,) if f.node.args.kwarg else ())
            node2 = _specialise_module_level_reducers(ctx.repo, f, ctx_names)
            if node2 is not f.node:
                f = dataclasses.replace(f, node=node2)
        except Exception:
            pass
        # containers with a len(idx) extent
        for n in ast.walk(f.node):
            if isinstance(n, ast.Assign) and len(n.targets) == 1 and isinstance(n.targets[0], ast.Name):
                v = n.value
                if isinstance(v, ast.Call) and ast.unparse(v.func) in ('np.zeros', 'np.empty', 'np.ones') and v.args:
                    shape = v.args[0]
                    dims = shape.elts if isinstance(shape, ast.Tuple) else [shape]
                    if dims and all(_is_len_of(d, sc.idx) for d in dims):
                        sc.pos_containers[n.targets[0].id] = n
                if isinstance(v, ast.ListComp) and len(v.generators) == 1 and isinstance(v.generators[0].iter, ast.Name) \
                        and v.generators[0].iter.id == sc.idx and not (isinstance(v.elt, ast.Tuple)):
                    sc.pos_containers[n.targets[0].id] = n
        # the selection keeps the caller's order: `idx` is only ever re-bound to an order-preserving copy of itself.  A
        # sorting / de-duplicating normalisation (np.unique, sorted, set) changes which train comes first in a pair and
        # where a train's row sits in a matrix - for an antisymmetric measure that flips signs
        for n in ast.walk(f.node):
            if isinstance(n, ast.Assign) and len(n.targets) == 1 and isinstance(n.targets[0], ast.Name) and n.targets[0].id == sc.idx \
                    and isinstance(n.value, ast.Call) and n.value.args and any(
                        isinstance(x, ast.Name) and x.id == sc.idx for x in ast.walk(n.value)):
                fnm = ast.unparse(n.value.func)
                t = (f"{f.name}: the selection `{sc.idx}` is used in the order given by the caller (it is only copied, never sorted or "
                     f"de-duplicated)")
                if fnm in ('np.array', 'np.asarray', 'list', 'tuple', 'np.asanyarray', 'np.copy', 'np.atleast_1d'):
                    obs.append(ok(rule, t, f.loc(n), construct=f"{fn}::selection-order"))
                elif fnm in ('np.unique', 'sorted', 'np.sort', 'set', 'frozenset', 'np.flip', 'reversed'):
                    sens = _order_sensitive(ctx, wm, f)
                    det = (f"`{ast.unparse(n)}` re-orders the selection"
                           + ('; this function feeds an order-sensitive (antisymmetric) measure, so a non-ascending selection flips signs'
                              if sens else '; results for the selected trains no longer correspond to the positions the caller named'))
                    obs.append(violation(rule, t, f.loc(n), key=f"{fn}::selection-reordered::{fnm}", detail=det))
                    if rule_enum != rule and sc.pos_containers:
                        # the same fact as an obligation of the pair enumeration (rows / columns of a matrix and the entries of
                        # a value list are laid out by position in the selection)
                        obs.append(violation(rule_enum, t, f.loc(n), key=f"{fn}::selection-reordered::{fnm}", detail=det))
                else:
                    obs.append(inconclusive(rule, t, f.loc(n), f"`{ast.unparse(n)[:80]}`: unknown normalisation of the selection",
                                            construct=f"{fn}::selection-order"))
        # pair lists
        for n in ast.walk(f.node):
            if isinstance(n, ast.Assign) and len(n.targets) == 1 and isinstance(n.targets[0], ast.Name) and \
                    isinstance(n.value, ast.ListComp) and isinstance(n.value.elt, ast.Tuple) and len(n.value.generators) == 2:
                ks = classify_pairs(sc, n.value, rule_enum, obs, lambda ff: _order_sensitive(ctx, wm, ff), rule)
                if ks:
                    sc.pairs[n.targets[0].id] = (ks[0], ks[1], n)
        # ... and pair comprehensions that a loop runs over directly: `for a, b in [(..) for .. for ..]`
        comp_iters: Dict[int, str] = {}
        for n in ast.walk(f.node):
            if isinstance(n, ast.For) and isinstance(n.iter, ast.ListComp) and isinstance(n.iter.elt, ast.Tuple) \
                    and len(n.iter.generators) == 2:
                ks = classify_pairs(sc, n.iter, rule_enum, obs, lambda ff: _order_sensitive(ctx, wm, ff), rule)
                if ks:
                    key = f"<pairs of the loop at +{n.lineno - f.node.lineno}>"
                    sc.pairs[key] = (ks[0], ks[1], n)
                    comp_iters[id(n.iter)] = key
        nested_loops = []
        if not sc.pairs:
            # the same enumeration written as two nested loops: bring it into the form of a pair comprehension
            for n in ast.walk(f.node):
                if not isinstance(n, ast.For) or not isinstance(n.target, ast.Name):
                    continue
                inner = [m for st in n.body for m in ast.walk(st) if isinstance(m, ast.For) and isinstance(m.target, ast.Name)]
                for m in inner:
                    mentions = {x.id for x in ast.walk(n.iter) if isinstance(x, ast.Name)} | \
                               {x.id for x in ast.walk(m.iter) if isinstance(x, ast.Name)}
                    if sc.idx not in mentions and not any(_is_len_of(x, sc.idx) for x in ast.walk(n.iter)):
                        continue
                    a_, b_ = n.target.id, m.target.id
                    g1 = ast.comprehension(target=ast.Name(id=a_, ctx=ast.Store()), iter=n.iter, ifs=[], is_async=0)
                    it2, ifs2 = m.iter, []
                    # value-selected inner range: idx[idx > a] / idx[a < idx]
                    if isinstance(it2, ast.Subscript) and isinstance(it2.value, ast.Name) and it2.value.id == sc.idx and \
                            isinstance(it2.slice, ast.Compare) and len(it2.slice.ops) == 1:
                        c_ = it2.slice
                        l_, r_ = c_.left, c_.comparators[0]
                        def sub_(e):
                            return ast.Name(id=b_, ctx=ast.Load()) if isinstance(e, ast.Name) and e.id == sc.idx else e
                        ifs2 = [ast.Compare(left=sub_(l_), ops=c_.ops, comparators=[sub_(r_)])]
                        it2 = ast.Name(id=sc.idx, ctx=ast.Load())
                    g2 = ast.comprehension(target=ast.Name(id=b_, ctx=ast.Store()), iter=it2, ifs=ifs2, is_async=0)
                    # components: how the two loop variables address the train list inside the inner body
                    subs = [x for st in m.body for x in ast.walk(st) if isinstance(x, ast.Subscript) and isinstance(x.value, ast.Name)
                            and x.value.id == sc.trains]
                    subs_outer = [x for st in n.body if st is not m for x in ast.walk(st) if isinstance(x, ast.Subscript)
                                  and isinstance(x.value, ast.Name) and x.value.id == sc.trains and st is not m]
                    def comp_of(var):
                        for x in subs + subs_outer:
                            if any(isinstance(y, ast.Name) and y.id == var for y in ast.walk(x.slice)):
                                return x.slice
                        return ast.Name(id=var, ctx=ast.Load())
                    elt = ast.Tuple(elts=[comp_of(a_), comp_of(b_)], ctx=ast.Load())
                    comp = ast.ListComp(elt=elt, generators=[g1, g2])
                    ast.copy_location(comp, n)
                    ast.fix_missing_locations(comp)
                    ks = classify_pairs(sc, comp, rule_enum, obs, lambda ff: _order_sensitive(ctx, wm, ff), rule)
                    if ks:
                        sc.pairs[f"<loops {a_},{b_}>"] = (ks[0], ks[1], n)
                        nested_loops.append((n, m, a_, b_, ks, dict(getattr(sc, 'generator_kinds', {}))))
        if not sc.pairs:
            calls_pairs = any(isinstance(x, ast.Call) and sum(1 for a in x.args if isinstance(a, ast.Subscript) and
                              isinstance(a.value, ast.Name) and a.value.id == sc.trains) >= 2 for x in ast.walk(f.node))
            if calls_pairs:
                obs.append(inconclusive(rule, f"{f.name}: the enumeration of the pairs of selected trains is recognised (a pair list or "
                                        f"two nested loops)", f.loc(), construct=fn))
            else:
                obs.append(info(rule, f"{f.name}: has an index selection but no pair list", f.loc()))
            continue
        # names carrying a kind: loop variables over a pair list; pair-list aliases (slices, nested-function params)
        pair_alias: Dict[str, str] = {p: p for p in sc.pairs}
        changed = True
        nested = [x for x in ast.walk(f.node) if isinstance(x, ast.FunctionDef) and x is not f.node]
        while changed:
            changed = False
            for n in ast.walk(f.node):
                if isinstance(n, ast.Call) and isinstance(n.func, ast.Name):
                    for nd in nested:
                        if nd.name == n.func.id:
                            for k, a in enumerate(n.args):
                                b = a
                                while isinstance(b, ast.Subscript) and isinstance(b.slice, ast.Slice):
                                    b = b.value
                                if isinstance(b, ast.Name) and b.id in pair_alias and k < len(nd.args.args):
                                    pn = nd.args.args[k].arg
                                    if pn not in pair_alias:
                                        pair_alias[pn] = pair_alias[b.id]
                                        changed = True
        kinds: Dict[str, str] = {}
        loops = []
        for n in ast.walk(f.node):
            if isinstance(n, ast.For) and ((isinstance(n.iter, ast.Name) and n.iter.id in pair_alias) or id(n.iter) in comp_iters):
                k1, k2, _ = sc.pairs[pair_alias[n.iter.id] if isinstance(n.iter, ast.Name) else comp_iters[id(n.iter)]]
                tg = n.target
                if isinstance(tg, ast.Tuple) and len(tg.elts) == 2 and all(isinstance(e, ast.Name) for e in tg.elts):
                    kinds[tg.elts[0].id] = k1
                    kinds[tg.elts[1].id] = k2
                    loops.append(n)
            elif isinstance(n, ast.Assign) and len(n.targets) == 1 and isinstance(n.targets[0], ast.Tuple) \
                    and len(n.targets[0].elts) == 2 and all(isinstance(e, ast.Name) for e in n.targets[0].elts) \
                    and isinstance(n.value, ast.Subscript) and isinstance(n.value.value, ast.Name) \
                    and n.value.value.id in pair_alias and not isinstance(n.value.slice, ast.Slice):
                # `a, b = pairs[k]`: one element of a pair list
                k1, k2, _ = sc.pairs[pair_alias[n.value.value.id]]
                kinds[n.targets[0].elts[0].id] = k1
                kinds[n.targets[0].elts[1].id] = k2
        for (_n, _m, a_, b_, _ks, gk) in nested_loops:
            # the pair enumeration written as two loops: the loop variables themselves carry the generator kinds
            for v in (a_, b_):
                if v in gk:
                    kinds[v] = gk[v]

        parents_: Dict[int, ast.AST] = {}
        for n_ in ast.walk(f.node):
            for c_ in ast.iter_child_nodes(n_):
                parents_[id(c_)] = n_
        once_ = _once_assigned(f)

        def iter_kind(it: ast.AST) -> Optional[str]:
            """kind of the values an iteration over `it` yields"""
            if isinstance(it, ast.Name) and it.id == sc.idx:
                return TID
            if isinstance(it, ast.Call) and ast.unparse(it.func) in ('range', 'xrange', 'np.arange') and len(it.args) == 1:
                a_ = it.args[0]
                if isinstance(a_, ast.Name) and a_.id in once_:
                    a_ = once_[a_.id]
                if _is_len_of(a_, sc.idx):
                    return POS
            return None

        def local_kind(name_node: ast.Name) -> Optional[str]:
            """a variable of an enclosing comprehension or plain loop that runs over the selection (train ids) or over its
            positions"""
            cur = name_node
            while id(cur) in parents_:
                cur = parents_[id(cur)]
                gens = []
                if isinstance(cur, (ast.ListComp, ast.SetComp, ast.GeneratorExp, ast.DictComp)):
                    gens = [(g.target, g.iter) for g in cur.generators]
                elif isinstance(cur, ast.For):
                    gens = [(cur.target, cur.iter)]
                for tg_, it_ in gens:
                    if isinstance(tg_, ast.Name) and tg_.id == name_node.id:
                        return iter_kind(it_)
                    if isinstance(tg_, ast.Tuple) and len(tg_.elts) == 2 and all(isinstance(e_, ast.Name) for e_ in tg_.elts) \
                            and isinstance(it_, ast.Call) and ast.unparse(it_.func) == 'enumerate' and len(it_.args) == 1 \
                            and isinstance(it_.args[0], ast.Name) and it_.args[0].id == sc.idx:
                        if tg_.elts[0].id == name_node.id:
                            return POS
                        if tg_.elts[1].id == name_node.id:
                            return TID
                    if any(isinstance(x_, ast.Name) and x_.id == name_node.id for x_ in ast.walk(tg_)):
                        return None
            return None

        def kind_of(e: ast.AST) -> Optional[str]:
            if isinstance(e, ast.Name):
                return kinds.get(e.id) or local_kind(e)
            if isinstance(e, ast.Subscript):
                # idx[POS] -> TID
                if isinstance(e.value, ast.Name) and e.value.id == sc.idx:
                    k = kind_of(e.slice)
                    return TID if k == POS else ('BAD' if k == TID else None)
                # pairs[c][d]
                if isinstance(e.value, ast.Subscript) and isinstance(e.value.value, ast.Name) and \
                        e.value.value.id in pair_alias and isinstance(e.slice, ast.Constant) and e.slice.value in (0, 1):
                    ks = sc.pairs[pair_alias[e.value.value.id]]
                    return ks[e.slice.value]
            return None

        # every subscript of the train list / of a POS container inside the function
        n_checked = 0
        for n in ast.walk(f.node):
            if not isinstance(n, ast.Subscript) or not isinstance(n.value, ast.Name):
                continue
            base = n.value.id
            if base == sc.trains:
                want, what = TID, f"the train list `{sc.trains}` is addressed by train id"
            elif base in sc.pos_containers:
                want, what = POS, f"`{base}` has one slot per selected train and is addressed by position in `{sc.idx}`"
            else:
                continue
            idxs = n.slice.elts if isinstance(n.slice, ast.Tuple) else [n.slice]
            for e in idxs:
                k = kind_of(e)
                if k is None:
                    continue       # not an index derived from the pair list (e.g. comprehension variable)
                n_checked += 1
                t = f"{f.name}: {what}"
                if k == want:
                    obs.append(ok(rule, t, f.loc(n), construct=f"{fn}::{base}[{ast.unparse(e)}]"))
                else:
                    obs.append(violation(rule, t, f.loc(n), key=f"{fn}::{base}[{k}:{ast.unparse(e)}]",
                                         detail=f"`{ast.unparse(n)}` uses a {k} where a {want} is required; correct only when "
                                                f"`{sc.idx}` is the identity (a prefix 0..k-1)",
                                         construct=f"{fn}::{base}[{ast.unparse(e)}]"))
        if n_checked == 0:
            obs.append(inconclusive(rule, f"{f.name}: uses of the pair indices found", f.loc(), construct=fn))
        # every pair is evaluated: no conditional skip / early exit inside a loop over a pair list
        for lp in loops:
            skips = [x for st in lp.body for x in ast.walk(st) if isinstance(x, (ast.Continue, ast.Break))]
            nested_calls = [x for st in lp.body if isinstance(st, (ast.If, ast.While, ast.Try)) for x in ast.walk(st)
                            if isinstance(x, ast.Call) and any(isinstance(a, ast.Subscript) and isinstance(a.value, ast.Name) and
                                                                a.value.id == sc.trains for a in x.args)]
            t = (f"{f.name}: the loop over the pair list evaluates every pair unconditionally (no `continue`/`break`, the pair "
                 f"function is not called under a condition)")
            if not skips and not nested_calls:
                obs.append(ok(rule_enum, t, f.loc(lp), construct=f"{fn}::pairloop::{lp.lineno - f.node.lineno}"))
            else:
                node = (skips + nested_calls)[0]
                obs.append(violation(rule_enum, t, f.loc(node), key=f"{fn}::pairloop-conditional",
                                     detail=f"`{ast.unparse(lp.body[0])[:100]}`: some pairs do not contribute their value/multiplicity"))
        # R14.3: normalisation by a train count uses the selection size
        for n in ast.walk(f.node):
            div = None
            if isinstance(n, ast.AugAssign) and isinstance(n.op, ast.Div):
                div = n.value
            elif isinstance(n, ast.BinOp) and isinstance(n.op, ast.Div):
                div = n.right
            if div is None:
                continue
            for x in ast.walk(div):
                if _is_len_of(x, sc.trains):
                    t = f"{f.name}: a normalisation by the number of trains counts the selected trains (`len({sc.idx})`)"
                    obs.append(violation(rule_size, t, f.loc(n), key=f"{fn}::normalise-by-len({sc.trains})",
                                         detail=f"`{ast.unparse(n)}` divides by a count of all trains although `{sc.idx}` selects a subset"))
                elif _is_len_of(x, sc.idx):
                    t = f"{f.name}: a normalisation by the number of trains counts the selected trains (`len({sc.idx})`)"
                    obs.append(ok(rule_size, t, f.loc(n), construct=f"{fn}::normalise"))
        # R14.3: 'auto' threshold inside an index-aware function
        for n in ast.walk(f.node):
            if isinstance(n, ast.Call):
                tg = wm.callees(f, n)
                if tg and tg[0][0].name == 'default_thresh' and n.args and isinstance(n.args[0], ast.Name) and \
                        n.args[0].id == sc.trains:
                    t = (f"{f.name}: the 'auto' threshold of a call with `{sc.idx}` is computed from the selected trains "
                         f"(so that it equals the call on the sub-list)")
                    obs.append(violation(rule_size, t, f.loc(n), key=f"{_stable_site(ctx, f)}::auto-threshold-pools-all-trains",
                                         detail=f"default_thresh({sc.trains}) pools every train of the list, ignoring `{sc.idx}`"))
        # index validity assertion
        has_assert = any(isinstance(x, ast.Assert) and sc.idx in {y.id for y in ast.walk(x.test) if isinstance(y, ast.Name)}
                         for x in ast.walk(f.node))
        t = f"{f.name}: `{sc.idx}` is validated against the length of the train list"
        if has_assert:
            obs.append(ok(rule, t, f.loc(), construct=f"{fn}::assert"))
        else:
            obs.append(violation(rule, t, f.loc(), key=f"{fn}::indices-unvalidated"))
    return obs


def _order_sensitive(ctx, wm: WrapperModel, f: FuncInfo) -> Optional[bool]:
    """does `f` feed its pairs to an antisymmetric measure (order / directionality kernels)?"""
    from .rules_wrappers import _reachable_sites
    from .rules_symmetry import infer_mode
    from .kernels import discover_families
    fams, _sites = ctx.get('families', lambda c: discover_families(c.repo))
    reached = _reachable_sites(wm, f)
    # plus single-pass sites reached directly
    singles = set()
    seen = set()

    def walk(g, depth=0):
        if g.qual in seen or depth > 5:
            return
        seen.add(g.qual)
        for s in wm.site_by_func.get(g.qual, []):
            singles.add(s.compiled_symbol)
        for n in ast.walk(g.node):
            if isinstance(n, ast.Call):
                for t, _ in wm.callees(g, n):
                    walk(t, depth + 1)
    walk(f)
    names = reached | singles
    if not names:
        return None
    for fam in fams:
        for k in (fam.pyx, fam.single):
            if k is not None and k.name in names:
                for node in ast.walk(k.node):
                    if isinstance(node, ast.While):
                        mode, negs, rk = infer_mode(k, node)
                        if mode == 'anti' or rk == 'swap':
                            return True
    return False


# ======================================================================================
# matrix fills (R06.4, R04.3) and D&C / normalisation (R06.2, R06.3)
# ======================================================================================
def r06_4_matrix_fills(ctx, rule: str = 'R06.4') -> List[Ob]:
    wm = wrapper_model(ctx)
    obs: List[Ob] = []
    for f in wm.funcs:
        # loops whose body fills a matrix: `for a, b in <pairs>` or the same enumeration as two nested loops
        # `for a in ..: for b in ..:` (the inner loop is then the one with the stores)
        parents = {}
        for n in ast.walk(f.node):
            for c in ast.iter_child_nodes(n):
                parents[id(c)] = n
        for loop in ast.walk(f.node):
            if not isinstance(loop, ast.For):
                continue
            if isinstance(loop.target, ast.Tuple) and len(loop.target.elts) == 2:
                a, b = [e.id if isinstance(e, ast.Name) else None for e in loop.target.elts]
            elif isinstance(loop.target, ast.Name) and isinstance(parents.get(id(loop)), ast.For) \
                    and isinstance(parents[id(loop)].target, ast.Name) and loop in parents[id(loop)].body \
                    and any(isinstance(x, ast.Name) and x.id == parents[id(loop)].target.id for x in ast.walk(loop.iter)):
                # (a triangle: the inner range starts from the outer variable; a full n x m sweep is not a pair enumeration)
                a, b = parents[id(loop)].target.id, loop.target.id
            else:
                continue
            stores = []
            for st in loop.body:
                if isinstance(st, ast.Assign) and all(isinstance(tg_, ast.Subscript) and isinstance(tg_.slice, ast.Tuple)
                                                      and len(tg_.slice.elts) == 2 for tg_ in st.targets):
                    # (a chained store `m[i, j] = m[j, i] = v` is two stores of one value)
                    for tg_ in st.targets:
                        one = ast.Assign(targets=[tg_], value=st.value)
                        ast.copy_location(one, st)
                        stores.append(one)
            if len(stores) < 1:
                continue
            fn = _fn(f)
            m = stores[0].targets[0].value
            mname = m.id if isinstance(m, ast.Name) else ast.unparse(m)
            # zero init
            init = None
            for n in ast.walk(f.node):
                if isinstance(n, ast.Assign) and isinstance(n.targets[0], ast.Name) and n.targets[0].id == mname and \
                        isinstance(n.value, ast.Call):
                    init = ast.unparse(n.value.func)
            t = f"{f.name}: matrix `{mname}` starts as zeros (diagonal stays 0)"
            if init == 'np.zeros':
                obs.append(ok(rule, t, f.loc(loop), construct=f"{fn}::{mname}::init"))
            else:
                obs.append(violation(rule, t, f.loc(loop), key=f"{fn}::{mname}::init", detail=str(init)))
            ij = [ast.unparse(s.targets[0].slice) for s in stores]
            vals = [s.value for s in stores]
            t = f"{f.name}: each pair value is written to `[{a}, {b}]` and mirrored to `[{b}, {a}]`"
            want = {f"({a}, {b})", f"({b}, {a})"}
            if len(stores) == 2 and set(ij) == want:
                obs.append(ok(rule, t, f.loc(stores[0]), construct=f"{fn}::{mname}::mirror"))
                v0 = vals[ij.index(f"({a}, {b})")]
                v1 = vals[ij.index(f"({b}, {a})")]
                sym = (isinstance(v0, ast.Name) and isinstance(v1, ast.Name) and v0.id == v1.id) or v0 is v1
                anti = isinstance(v0, ast.Name) and isinstance(v1, ast.UnaryOp) and isinstance(v1.op, ast.USub) and \
                    isinstance(v1.operand, ast.Name) and v1.operand.id == v0.id
                t2 = f"{f.name}: the mirrored entry is the same value (symmetric) or its negative (antisymmetric: directionality)"
                is_dir = 'directionality' in f.name
                if (sym and not is_dir) or (anti and is_dir):
                    obs.append(ok(rule, t2, f.loc(stores[1]), construct=f"{fn}::{mname}::mirror-value",
                                  detail='symmetric' if sym else 'antisymmetric'))
                else:
                    obs.append(violation(rule, t2, f.loc(stores[1]), key=f"{fn}::{mname}::mirror-value",
                                         detail=f"[{a},{b}] = {ast.unparse(v0)}; [{b},{a}] = {ast.unparse(v1)}"))
                # the value is the pair function evaluated on (train a, train b) in this order
                direct = [stores[ij.index(f"({a}, {b})")]] if isinstance(v0, ast.Call) and len(v0.args) >= 2 else []
                for st in list(loop.body) + direct:
                    if isinstance(st, ast.Assign) and ((isinstance(st.targets[0], ast.Name) and isinstance(v0, ast.Name) and
                                                        st.targets[0].id == v0.id) or st in direct) \
                            and isinstance(st.value, ast.Call) and len(st.value.args) >= 2:
                        a0, a1 = ast.unparse(st.value.args[0]), ast.unparse(st.value.args[1])
                        t3 = f"{f.name}: entry `[{a}, {b}]` is the pair function applied to (train {a}, train {b}) in that order"
                        if (f"[{a}]" in a0 and f"[{b}]" in a1) and not (f"[{b}]" in a0):
                            obs.append(ok(rule, t3, f.loc(st), construct=f"{fn}::{mname}::order"))
                        else:
                            obs.append(violation(rule, t3, f.loc(st), key=f"{fn}::{mname}::pair-order", detail=f"({a0}, {a1})"))
            else:
                obs.append(violation(rule, t, f.loc(stores[0]), key=f"{fn}::{mname}::mirror", detail=f"stores at {ij}"))
    # SPIKE-Sync matrix diagonal
    for f in wm.funcs:
        for loop in ast.walk(f.node):
            if isinstance(loop, ast.For) and isinstance(loop.target, ast.Name) and len(loop.body) == 1 and \
                    isinstance(loop.body[0], ast.Assign) and isinstance(loop.body[0].targets[0], ast.Subscript):
                tg = loop.body[0].targets[0]
                i = loop.target.id
                diag = (isinstance(tg.value, ast.Subscript) and ast.unparse(tg.slice) == i and ast.unparse(tg.value.slice) == i) or \
                    (isinstance(tg.slice, ast.Tuple) and [ast.unparse(e) for e in tg.slice.elts] == [i, i])
                if not diag:
                    continue
                fn = _fn(f)
                base = tg.value.value if isinstance(tg.value, ast.Subscript) else tg.value
                bname = ast.unparse(base)
                it = loop.iter
                bound_ = it.args[0] if isinstance(it, ast.Call) and len(it.args) == 1 else None
                if isinstance(bound_, ast.Name):
                    # a local that is bound once (the number of rows, named in front of the loop)
                    defs_ = [a_ for a_ in ast.walk(f.node) if isinstance(a_, ast.Assign) and len(a_.targets) == 1
                             and isinstance(a_.targets[0], ast.Name) and a_.targets[0].id == bound_.id]
                    n_st_ = sum(1 for x_ in ast.walk(f.node) if isinstance(x_, ast.Name) and x_.id == bound_.id
                                and isinstance(x_.ctx, ast.Store))
                    if len(defs_) == 1 and n_st_ == 1 and defs_[0].lineno < loop.lineno:
                        bound_ = defs_[0].value
                full = isinstance(it, ast.Call) and isinstance(it.func, ast.Name) and it.func.id == 'range' and len(it.args) == 1 and \
                    ast.unparse(bound_) in (f"{bname}.shape[0]", f"len({bname})", f"{bname}.shape[1]")
                one = isinstance(loop.body[0].value, ast.Constant) and loop.body[0].value.value in (1, 1.0)
                t = f"{f.name}: the whole diagonal of the SPIKE-Sync matrix is set to 1"
                if full and one:
                    obs.append(ok(rule, t, f.loc(loop), construct=f"{fn}::diagonal"))
                else:
                    obs.append(violation(rule, t, f.loc(loop), key=f"{fn}::diagonal",
                                         detail=f"for {i} in {ast.unparse(it)}: {ast.unparse(loop.body[0])}"))
        # the same through the library call: np.fill_diagonal(M, 1.0) sets every diagonal entry
        for n in ast.walk(f.node):
            if isinstance(n, ast.Call) and ast.unparse(n.func) in ('np.fill_diagonal', 'numpy.fill_diagonal') and len(n.args) == 2 \
                    and not n.keywords:
                fn = _fn(f)
                t = f"{f.name}: the whole diagonal of the SPIKE-Sync matrix is set to 1"
                one = isinstance(n.args[1], ast.Constant) and n.args[1].value in (1, 1.0) and not isinstance(n.args[1].value, bool)
                returned = any(isinstance(r, ast.Return) and r.value is not None and ast.unparse(r.value) == ast.unparse(n.args[0])
                               for r in ast.walk(f.node))
                if one and returned:
                    obs.append(ok(rule, t, f.loc(n), construct=f"{fn}::diagonal"))
                else:
                    obs.append(violation(rule, t, f.loc(n), key=f"{fn}::diagonal", detail=ast.unparse(n)))
    return obs
