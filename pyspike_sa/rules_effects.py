"""Effect / ownership rules: R13.1 (no parameter is written), R09.1, R09.2 (ownership of stored arrays),
R13.3/R13.4 (fresh results, copying constructors)."""
from __future__ import annotations

from typing import List, Optional, Set

from .effects import EffectAnalysis, FRESH
from .frontend import Repo, FuncInfo
from .report import Ob, ok, violation, inconclusive, info


def _fn(fi: FuncInfo) -> str:
    return f"{fi.path}::{fi.name}"


def effects_of(ctx) -> EffectAnalysis:
    return ctx.get('effects', lambda c: EffectAnalysis(c.repo))


def r13_1_no_param_written(ctx, rule: str = 'R13.1', modules: Optional[Set[str]] = None,
                           names: Optional[Set[str]] = None) -> List[Ob]:
    ea = effects_of(ctx)
    obs: List[Ob] = []
    for q, s in sorted(ea.summaries.items()):
        fi = s.fi
        if modules is not None and fi.module not in modules:
            continue
        if names is not None and fi.name not in names and fi.name.split('.')[-1] not in names:
            continue
        is_method = bool(fi.cls) and s.params and s.params[0] == 'self'
        bad = {p: w for p, w in s.mutates.items() if not (is_method and p == 'self')}
        # closure parameters of nested functions count as parameters of the enclosing function
        t = f"{fi.name}: no store, in-place operation or mutating callee reaches a parameter (or an alias of one)"
        if not bad:
            obs.append(ok(rule, t, fi.loc(), construct=_fn(fi), detail=f"{s.sinks} store/in-place sites classified"))
        for p, why in sorted(bad.items()):
            seen = set()
            for wh, what in why:
                kind = what.split('`')[0].strip()
                k = f"{_fn(fi)}::param:{p}::{what}"
                if k in seen:
                    continue
                seen.add(k)
                obs.append(violation(rule, f"{fi.name}: parameter `{p}` (caller-visible storage) is written", wh,
                                     key=k, detail=what, construct=f"{_fn(fi)}::{p}"))
        for wh, what in s.unresolved:
            obs.append(info(rule, f"{fi.name}: call {what} not resolved (treated as effect-free, result fresh)", wh))
    return obs


def r09_2_ownership(ctx, rule: str = 'R09.2', classes: Optional[Set[str]] = None) -> List[Ob]:
    """Arrays stored into `self` are freshly allocated (never an alias of an argument), copies are independent."""
    ea = effects_of(ctx)
    obs: List[Ob] = []
    for q, s in sorted(ea.summaries.items()):
        fi = s.fi
        if not fi.cls or (classes is not None and fi.cls not in classes):
            continue
        for attr, wh, org, node in s.self_stores:
            foreign = set()
            for o in org:
                if isinstance(o, tuple) and o[0] == 'elem':
                    o = o[1]
                if isinstance(o, tuple) and o[0] == 'param' and o[1] != 'self':
                    foreign.add(o[1])
            t = f"{fi.name}: value stored into self.{attr} is freshly allocated (no alias of an argument escapes into the object)"
            if foreign:
                obs.append(violation(rule, t, wh, key=f"{_fn(fi)}::self.{attr}::aliases::{','.join(sorted(foreign))}",
                                     detail=f"may alias parameter(s) {sorted(foreign)}; a later in-place operation on this "
                                            f"object would modify the caller's data"))
            else:
                obs.append(ok(rule, t, wh, construct=f"{_fn(fi)}::self.{attr}"))
        if fi.name.endswith('.copy'):
            t = f"{fi.name}: returns a new object that shares no storage with the original"
            if s.returns - {FRESH}:
                obs.append(violation(rule, t, fi.loc(), key=f"{_fn(fi)}::copy-aliases", detail=f"may alias {sorted(map(str, s.returns - {FRESH}))}"))
            else:
                obs.append(ok(rule, t, fi.loc(), construct=f"{_fn(fi)}::copy"))
    return obs


def r_fresh_results(ctx, rule: str, funcs: List[tuple]) -> List[Ob]:
    """The listed (module, function) return freshly allocated results (no alias of an input)."""
    ea = effects_of(ctx)
    obs: List[Ob] = []
    for mod, name in funcs:
        fi = ctx.repo.func(mod, name)
        s = ea.summaries[fi.qual]
        t = f"{name}: the returned object shares no storage with the arguments"
        alias = s.returns - {FRESH}
        if alias:
            obs.append(violation(rule, t, fi.loc(), key=f"{_fn(fi)}::returns-alias::{','.join(sorted(map(str, alias)))}",
                                 detail=f"return value may alias {sorted(map(str, alias))}"))
        else:
            obs.append(ok(rule, t, fi.loc(), construct=f"{_fn(fi)}::returns"))
    return obs


def kernel_results_fresh(ctx, rule: str, kernels: List[FuncInfo]) -> List[Ob]:
    ea = effects_of(ctx)
    obs: List[Ob] = []
    for fi in kernels:
        s = ea.summaries[fi.qual]
        t = f"{fi.name}: returned arrays are (views of) arrays allocated inside the kernel"
        alias = s.returns - {FRESH}
        if alias:
            obs.append(violation(rule, t, fi.loc(), key=f"{_fn(fi)}::returns-alias::{','.join(sorted(map(str, alias)))}",
                                 detail=f"return value may alias parameter(s) {sorted(map(str, alias))}"))
        else:
            obs.append(ok(rule, t, fi.loc(), construct=f"{_fn(fi)}::returns"))
    return obs
