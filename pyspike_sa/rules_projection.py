"""Projection rules (R12.3 / R05.2): each compiled single-pass distance kernel is the compiled profile
kernel with the output statements replaced by an integration template.

Obligation 1 (state projection): the variables the two kernels share (cursors, current intervals,
nearest-spike distances ...) are initialised and updated identically - engine C with the output
names ignored, over initialisation and main loop.
Obligation 2 (output template), per path through the loop body (syntax-directed, both kernels in lock
step):  piecewise-constant: acc += v_prev * (T - t_prev), v_prev := V, t_prev := T
        piecewise-linear:   acc += 1/2 (y_start_prev + E) * (T - t_prev), y_start_prev := S, t_prev := T
        discrete:           acc_k += sum of the constants the profile kernel stores into its k-th value array
where T, V, E, S are what the profile kernel stores on the same path; plus the matching prologue
and epilogue (final piece up to t_end, division by t_end - t_start; discrete: accumulators returned
unmodified).
"""
from __future__ import annotations

import ast
import itertools
from typing import Dict, List, Optional, Set, Tuple

from . import canon as C
from .canon import Env
from .compare import Comparer, Side, Inconclusive, Region
from .frontend import FuncInfo
from .ir import IRBuilder, assigned_names, stored_arrays, read_names
from .kernels import Family
from .report import Ob, ok, violation, inconclusive, info
from .rules_siblings import SiblingEngine, _fn


def _returned_names(fi: FuncInfo) -> List[str]:
    out: List[str] = []
    for n in ast.walk(fi.node):
        if isinstance(n, ast.Return) and n.value is not None:
            vals = n.value.elts if isinstance(n.value, ast.Tuple) else [n.value]
            for v in vals:
                b = v
                while isinstance(b, (ast.Subscript, ast.Call, ast.BinOp)):
                    if isinstance(b, ast.Subscript):
                        b = b.value
                    elif isinstance(b, ast.Call):
                        b = b.args[0] if b.args else b.func
                    else:
                        b = b.left
                if isinstance(b, ast.Name) and b.id not in out:
                    out.append(b.id)
    return out


def _split_at_loop(items: list) -> Tuple[list, Optional[tuple], list]:
    # the path through the merge loop; exits in front of it are obligations of rules_exits.early_exit_obs
    from .rules_exits import main_path
    items = main_path(items)[0]
    for k, it in enumerate(items):
        if it[0] == 'while':
            return items[:k], it, items[k + 1:]
    return items, None, []


class PathExec:
    """Enumerates the paths through a list of IR items (no loops inside), executing each symbolically."""

    def __init__(self, side: Side):
        self.side = side
        self.cmp = Comparer(side, side)
        self.cmp.cursors = []
        self.returns = False        # True: a `return` item ends its path (recorded in env.returned) instead of failing

    def paths(self, items: list, env: Env, reg_stores: List[tuple], conds: List[tuple]):
        """yield (env, stores, conds) for every path; stores = [(array, rec)] in program order"""
        if not items:
            yield env, reg_stores, conds
            return
        it, rest = items[0], items[1:]
        if it[0] == 'simple':
            e = env.copy()
            reg = Region()
            self.cmp.exec_simple(it[1], e, reg, self.side)
            st = list(reg_stores)
            for key, recs in reg.stores.items():
                for r in recs:
                    st.append((key, r))
            yield from self.paths(rest, e, st, conds)
        elif it[0] == 'if':
            failed: List[tuple] = []
            for test, body, node in it[1]:
                c = C.canon_cond(test, env)
                yield from self.paths(body + rest, env.copy(), list(reg_stores),
                                      conds + [C.mk_not(f) for f in failed] + [c])
                failed.append(c)
            yield from self.paths(it[2] + rest, env.copy(), list(reg_stores), conds + [C.mk_not(f) for f in failed])
        elif it[0] == 'for' and self.cmp.liftable_for(it):
            e = env.copy()
            reg = Region()
            self.cmp.exec_lifted_for(it, e, reg, self.side)
            st = list(reg_stores)
            for key, recs in reg.stores.items():
                for r in recs:
                    st.append((key, r))
            yield from self.paths(rest, e, st, conds)
        elif it[0] in ('def', 'import'):
            yield from self.paths(rest, env, reg_stores, conds)
        elif it[0] == 'return' and self.returns:
            # the path ends here (an early return in an arm of the epilogue): the caller reads `env.returned`
            e = env.copy()
            e.returned = it
            yield e, reg_stores, conds
        else:
            raise Inconclusive(f"path enumeration: `{it[0]}` inside a loop body at "
                               f"{self.side.fi.path}:{getattr(it[-1], 'lineno', '?')}")


def _coeff_of(p: C.Term, a: tuple) -> Optional[C.Term]:
    """p = K*a + rest (a occurs only linearly, as a factor of monomials): return K as a poly, else None."""
    k = C.ZERO
    for m, c in p[1]:
        cnt = sum(1 for x in m if x == a)
        inner = any(a in C.atoms_of(x) for x in m if x != a)
        if cnt > 1 or (inner and cnt == 0 and any(a in C.atoms_of(x) for x in m)):
            return None
        if cnt == 1:
            rest = tuple(x for x in m if x != a)
            k = C.add(k, C.P({rest: c}))
    return k


def projection_obligations(eng: SiblingEngine, fam: Family, rule: str = 'R12.3') -> List[Ob]:
    obs: List[Ob] = []
    if fam.single is None:
        return obs
    prof, single = fam.pyx, fam.single
    pairname = f"{single.name} vs {prof.name}"
    where = f"{single.path}:{single.node.lineno} / {prof.path}:{prof.node.lineno}"
    ckey = f"{_fn(single)}~{_fn(prof)}"
    roles_p, _ = eng.roles_of(prof)
    roles_s, _ = eng.roles_of(single)
    if not (roles_p and roles_s and roles_p.ok and roles_s.ok):
        return [inconclusive(rule, f"{pairname}: both kernels are cursor-merge loops (premise of the projection)",
                             where, construct=ckey)]
    if (roles_p.c1, roles_p.c2) != (roles_s.c1, roles_s.c2):
        return [inconclusive(rule, f"{pairname}: cursors have the same names in both kernels", where, construct=ckey)]
    ret_p, ret_s = _returned_names(prof), _returned_names(single)
    bp, bs = IRBuilder(), IRBuilder()
    ip, is_ = bp.build(prof.node.body), bs.build(single.node.body)
    wp, ws = assigned_names(ip) | stored_arrays(ip), assigned_names(is_) | stored_arrays(is_)
    common = (wp & ws) - set(ret_p) - set(ret_s)
    ign_p = (wp - common)
    ign_s = (ws - common)
    pre_p, loop_p, post_p = _split_at_loop(ip)
    pre_s, loop_s, post_s = _split_at_loop(is_)
    if loop_p is None or loop_s is None:
        return [inconclusive(rule, f"{pairname}: main loop found", where, construct=ckey)]
    # ---- obligation 1: state projection over prologue + loop
    a = Side(single, ignore=set(ign_s), label='single')
    b = Side(prof, ignore=set(ign_p), label='profile')
    a.body = pre_s + [loop_s]
    b.body = pre_p + [loop_p]
    ad = eng._adapters([], rule)
    a.call_adapters = ad
    b.call_adapters = ad
    cmp = Comparer(a, b, cursors=[roles_p.c1, roles_p.c2], title=pairname)
    t1 = (f"{pairname}: shared state ({', '.join(sorted(common))}) is initialised and updated identically "
          f"(outputs ignored: single {sorted(ign_s)}, profile {sorted(ign_p)})")
    try:
        cmp.run()
        if cmp.mismatches:
            seen = set()
            for m in cmp.mismatches:
                if m.key() in seen:
                    continue
                seen.add(m.key())
                obs.append(violation(rule, f"{pairname}: state projection: {m.what}", f"{m.loc_a} / {m.loc_b}",
                                     key=f"{ckey}::state::{m.kind}::{m.what}::{m.form_a}::{m.form_b}",
                                     detail=f"single-pass: {m.form_a}\nprofile:     {m.form_b}\nin: {m.ctx}",
                                     construct=f"{ckey}::state::{m.ctx}"))
        else:
            obs.append(ok(rule, t1, where, construct=f"{ckey}::state", points=cmp.points,
                          detail=f"{cmp.points} aligned points"))
    except (Inconclusive, C.CanonError) as e:
        obs.append(inconclusive(rule, t1, where, str(e), construct=f"{ckey}::state"))
        return obs

    # ---- obligation 2: output template, per path
    try:
        obs.extend(_template(eng, fam, rule, pairname, where, ckey, ret_p, ret_s,
                             (pre_p, loop_p, post_p), (pre_s, loop_s, post_s), roles_p))
    except (Inconclusive, C.CanonError) as e:
        obs.append(inconclusive(rule, f"{pairname}: output template", where, str(e), construct=f"{ckey}::template"))
    return obs


def _exec_straight(pe: PathExec, items: list, env: Env) -> Tuple[Env, List[tuple]]:
    """Execute items that contain no control flow relevant to outputs (prologue): branches are walked as
    paths and must agree on the output facts the caller asks for; here we only support straight lines +
    ifs by returning the list of all paths."""
    raise NotImplementedError


def _template(eng, fam, rule, pairname, where, ckey, ret_p, ret_s, parts_p, parts_s, roles) -> List[Ob]:
    obs: List[Ob] = []
    prof, single = fam.pyx, fam.single
    pre_p, loop_p, post_p = parts_p
    pre_s, loop_s, post_s = parts_s
    ad = eng._adapters([], rule)
    sp = Side(prof, label='profile')
    ss = Side(single, label='single')
    sp.call_adapters = ad
    ss.call_adapters = ad
    pp, ps = PathExec(sp), PathExec(ss)
    # classify the profile kernel by what it returns
    is_time_first = len(ret_p) >= 2
    alloc_kind: Dict[str, str] = {}
    for n in ast.walk(prof.node):
        if isinstance(n, ast.Assign) and len(n.targets) == 1 and isinstance(n.targets[0], ast.Name) and \
                isinstance(n.value, ast.Call):
            d = C.dotted(n.value.func)
            if d in ('np.zeros', 'np.ones', 'np.empty'):
                alloc_kind.setdefault(n.targets[0].id, d[3:])
    discrete = all(alloc_kind.get(r) in ('zeros', 'ones') for r in ret_p)
    body_p, body_s = loop_p[2], loop_s[2]

    def env_for(side):
        e = Env()
        e.call_adapters = side.call_adapters
        return e

    paths_p = list(pp.paths(body_p, env_for(sp), [], []))
    paths_s = list(ps.paths(body_s, env_for(ss), [], []))
    if len(paths_p) != len(paths_s):
        return [inconclusive(rule, f"{pairname}: loop bodies have the same number of paths", where,
                             f"{len(paths_s)} vs {len(paths_p)}", construct=f"{ckey}::template")]

    def acc_inc(env: Env, name: str) -> C.Term:
        return C.sub(C.to_poly(env.get(name)), C.atom(('n', name)))

    def stores_into(stores, arr):
        return [r for k, r in stores if k == arr]

    if discrete:
        # value arrays: returned arrays that are not the time axis (the time axis stores spike times)
        time_arrs = []
        val_arrs = []
        for r in ret_p:
            sts = [rec for (_, st, _c) in [(0, s, c) for (e, s, c) in paths_p] for k, rec in st if k == r]
            is_time = any(rec[0] == 'store' and C.is_poly(rec[2]) and not C.is_const(rec[2]) for rec in sts)
            (time_arrs if is_time else val_arrs).append(r)
        if len(ret_s) != len(val_arrs) and not (len(ret_s) == 1 and len(val_arrs) == 2):
            return [inconclusive(rule, f"{pairname}: accumulators correspond to the profile's value arrays", where,
                                 f"single returns {ret_s}, profile value arrays {val_arrs}",
                                 construct=f"{ckey}::template")]
        # event counter of the profile kernel (index variable of the time array), if any
        counter = None
        for (e, st, c) in paths_p:
            for k, rec in st:
                if k in time_arrs and rec[0] == 'store':
                    nm = C.names_of(rec[1])
                    if len(nm) == 1:
                        counter = next(iter(nm))
        for k, acc in enumerate(ret_s):
            arr = val_arrs[k]
            default = {'ones': 1, 'zeros': 0}.get(alloc_kind.get(arr, 'zeros'), 0)
            for n_path, ((e_p, st_p, c_p), (e_s, st_s, c_s)) in enumerate(zip(paths_p, paths_s)):
                recs = stores_into(st_p, arr)
                total = C.ZERO
                okc = True
                for rec in recs:
                    if rec[0] != 'store' or not C.is_poly(rec[2]) or not C.is_const(rec[2]):
                        okc = False
                        break
                    total = C.add(total, rec[2])
                n_events = C.ZERO
                if counter is not None:
                    n_events = C.sub(C.to_poly(e_p.get(counter)), C.atom(('n', counter)))
                if default and counter is not None and C.is_const(n_events):
                    # events whose multiplicity was not stored explicitly keep the allocation default
                    explicit = len({C.show(r[1]) for r in recs})
                    total = C.add(total, C.scale(C.sub(n_events, C.const(explicit)), default))
                inc = acc_inc(e_s, acc)
                title = (f"{pairname}: `{acc}` grows by the sum of the constants the profile kernel stores into "
                         f"`{arr}` on the same path (path {n_path}: {' and '.join(C.show(x) for x in c_s[:2])[:90]})")
                node = loop_s[-1]
                if not okc:
                    obs.append(inconclusive(rule, title, where, 'non-constant store', construct=f"{ckey}::tpl::{acc}::{n_path}"))
                elif inc == total:
                    obs.append(ok(rule, title, where, construct=f"{ckey}::tpl::{acc}::{n_path}",
                                  detail=f"increment {C.show(inc)}"))
                else:
                    obs.append(violation(rule, title, where, key=f"{ckey}::template::{acc}::path{n_path}",
                                         detail=f"single-pass increment of {acc}: {C.show(inc)}; profile stores into "
                                                f"{arr}: {[C.show(r[2]) for r in recs]} (+default multiplicity "
                                                f"{default} per unstored event) = {C.show(total)}"))
        # epilogue of the single-pass kernel: accumulators must be returned unmodified
        rest = [it for it in post_s if it[0] != 'return']
        t = f"{pairname}: accumulators are returned as accumulated (no post-processing the profile route lacks)"
        touched = (assigned_names(rest) | stored_arrays(rest)) & set(ret_s)
        if touched:
            node = rest[0][-1]
            obs.append(violation(rule, t, f"{single.path}:{getattr(node, 'lineno', single.node.lineno)}",
                                 key=f"{_fn(single)}::epilogue-rewrites::{','.join(sorted(touched))}",
                                 detail=f"`{ast.unparse(node).splitlines()[0]}` rewrites {sorted(touched)} after the scan; "
                                        f"the profile route (integral of the profile without its edge entries) "
                                        f"has no such step"))
        else:
            obs.append(ok(rule, t, where, construct=f"{ckey}::epilogue"))
        # accumulators start at 0
        e0 = env_for(ss)
        for (e1, st1, c1) in ps.paths([it for it in pre_s if it[0] == 'simple'], e0, [], []):
            for acc in ret_s:
                v = C.to_poly(e1.get(acc))
                t = f"{pairname}: accumulator `{acc}` starts at 0"
                if v == C.ZERO:
                    obs.append(ok(rule, t, where, construct=f"{ckey}::init::{acc}"))
                else:
                    obs.append(violation(rule, t, where, key=f"{_fn(single)}::acc-init::{acc}", detail=C.show(v)))
        return obs

    # ---- continuous profiles (piecewise constant / linear)
    if len(ret_s) != 1:
        return [inconclusive(rule, f"{pairname}: single-pass kernel returns one scalar", where, construct=f"{ckey}::template")]
    acc = ret_s[0]
    tarr = ret_p[0]
    varrs = ret_p[1:]
    linear = len(varrs) == 2
    # discover `last` (previous breakpoint) and, for PWC, `cur` (current value) from the first path
    last = None
    for (e_p, st_p, c_p), (e_s, st_s, c_s) in zip(paths_p, paths_s):
        inc = acc_inc(e_s, acc)
        tst = stores_into(st_p, tarr)
        if len(tst) != 1:
            continue
        T = tst[0][2]
        for nm in sorted(C.names_of(inc)):
            if nm not in assigned_names(body_s):
                continue
            kf = _coeff_of(inc, ('n', nm))
            if kf is None or kf == C.ZERO:
                continue
            W = C.neg(kf)
            if C.mul(W, C.sub(T, C.atom(('n', nm)))) == inc:
                last = nm
                break
        if last:
            break
    if last is None:
        return [violation(rule, f"{pairname}: accumulator update has the form  acc += w * (T - t_prev)  with T the "
                          f"breakpoint the profile kernel emits on the same path", where,
                          key=f"{_fn(single)}::template-shape", detail="no variable plays the role of t_prev")]
    ys_name = None   # PWL: variable holding the start value of the current piece; PWC: the current value
    for n_path, ((e_p, st_p, c_p), (e_s, st_s, c_s)) in enumerate(zip(paths_p, paths_s)):
        ptxt = ' and '.join(C.show(x) for x in c_s[:2])[:90]
        inc = acc_inc(e_s, acc)
        tst = stores_into(st_p, tarr)
        ck = f"{ckey}::tpl::path{n_path}"
        if len(tst) != 1:
            obs.append(violation(rule, f"{pairname}: profile kernel emits exactly one breakpoint per iteration "
                                 f"(path {n_path})", where, key=f"{_fn(prof)}::breakpoints-per-iteration::path{n_path}",
                                 detail=f"{len(tst)} stores into {tarr}"))
            continue
        T = tst[0][2]
        dT = C.sub(T, C.atom(('n', last)))
        W = C.neg(_coeff_of(inc, ('n', last)) or C.ZERO)
        t_inc = f"{pairname}: acc += w*(T - {last}) with T = the breakpoint stored by the profile kernel (path {n_path}: {ptxt})"
        if C.mul(W, dT) != inc:
            obs.append(violation(rule, t_inc, where, key=f"{_fn(single)}::template::inc::path{n_path}",
                                 detail=f"increment {C.show(inc)}; profile breakpoint {C.show(T)}"))
            continue
        obs.append(ok(rule, t_inc, where, construct=ck + '::inc'))
        # t_prev := T
        lv = C.to_poly(e_s.get(last))
        t_last = f"{pairname}: `{last}` becomes the breakpoint of this iteration (path {n_path})"
        if lv == T:
            obs.append(ok(rule, t_last, where, construct=ck + '::last'))
        else:
            obs.append(violation(rule, t_last, where, key=f"{_fn(single)}::template::last::path{n_path}",
                                 detail=f"{last} = {C.show(lv)}; breakpoint {C.show(T)}"))
        if not linear:
            V = stores_into(st_p, varrs[0])
            sa = C.single_atom(W)
            if sa is None or sa[0] != 'n':
                obs.append(violation(rule, f"{pairname}: weight of the piece is the value carried from the previous "
                                     f"iteration (path {n_path})", where,
                                     key=f"{_fn(single)}::template::weight::path{n_path}", detail=C.show(W)))
                continue
            ys_name = sa[1]
            t_v = f"{pairname}: `{ys_name}` becomes the value the profile kernel stores for the new piece (path {n_path})"
            if len(V) == 1 and C.to_poly(e_s.get(ys_name)) == V[0][2]:
                obs.append(ok(rule, t_v, where, construct=ck + '::value'))
            else:
                obs.append(violation(rule, t_v, where, key=f"{_fn(single)}::template::value::path{n_path}",
                                     detail=f"{ys_name} = {C.show(C.to_poly(e_s.get(ys_name)))}; profile stores "
                                            f"{[C.show(v[2]) for v in V]}"))
        else:
            # W = 1/2 (ys_prev + E), E = end value stored by the profile at index-1, S = start value at index
            recs = [(k, r) for k, r in st_p if k in varrs]
            ends = [r for k, r in recs if r[0] == 'store' and any(True for _ in [0]) and
                    C.sub(r[1], tst[0][1]) == C.const(-1)]
            starts = [r for k, r in recs if r[0] == 'store' and r[1] == tst[0][1]]
            if len(ends) != 1 or len(starts) != 1:
                obs.append(inconclusive(rule, f"{pairname}: profile stores one end value (previous piece) and one "
                                        f"start value (new piece) per iteration (path {n_path})", where,
                                        f"ends={len(ends)} starts={len(starts)}", construct=ck))
                continue
            E, S = ends[0][2], starts[0][2]
            twoW = C.scale(W, 2)
            rest = C.sub(twoW, E)
            sa = C.single_atom(rest)
            t_w = (f"{pairname}: weight is the trapezoid 1/2(start value of the previous piece + end value the "
                   f"profile kernel stores) (path {n_path})")
            if sa is None or sa[0] != 'n':
                obs.append(violation(rule, t_w, where, key=f"{_fn(single)}::template::weight::path{n_path}",
                                     detail=f"w = {C.show(W)}; profile end value {C.show(E)}"))
                continue
            obs.append(ok(rule, t_w, where, construct=ck + '::weight'))
            ys_name = sa[1]
            t_v = f"{pairname}: `{ys_name}` becomes the start value the profile kernel stores for the new piece (path {n_path})"
            if C.to_poly(e_s.get(ys_name)) == S:
                obs.append(ok(rule, t_v, where, construct=ck + '::value'))
            else:
                obs.append(violation(rule, t_v, where, key=f"{_fn(single)}::template::value::path{n_path}",
                                     detail=f"{ys_name} = {C.show(C.to_poly(e_s.get(ys_name)))}; profile stores {C.show(S)}"))
    # ---- prologue: acc = 0, t_prev = t_start (= first breakpoint), value = first stored value
    pro_p = list(pp.paths(pre_p, env_for(sp), [], []))
    pro_s = list(ps.paths(pre_s, env_for(ss), [], []))
    if len(pro_p) == len(pro_s) and ys_name is not None:
        for n_path, ((e_p, st_p, c_p), (e_s, st_s, c_s)) in enumerate(zip(pro_p, pro_s)):
            t0 = stores_into(st_p, tarr)
            v0 = [r for k, r in st_p if k in varrs]
            okp = (C.to_poly(e_s.get(acc)) == C.ZERO and len(t0) == 1 and C.to_poly(e_s.get(last)) == t0[0][2]
                   and len(v0) == 1 and C.to_poly(e_s.get(ys_name)) == v0[0][2])
            t = (f"{pairname}: before the scan acc = 0, `{last}` = first breakpoint and `{ys_name}` = first value of "
                 f"the profile (prologue path {n_path})")
            if okp:
                obs.append(ok(rule, t, where, construct=f"{ckey}::prologue::{n_path}"))
            else:
                obs.append(violation(rule, t, where, key=f"{_fn(single)}::template::prologue::path{n_path}",
                                     detail=f"acc={C.show(C.to_poly(e_s.get(acc)))} {last}={C.show(C.to_poly(e_s.get(last)))} "
                                            f"{ys_name}={C.show(C.to_poly(e_s.get(ys_name)))}; profile stores "
                                            f"{[C.show(r[2]) for r in t0]} / {[C.show(r[2]) for r in v0]}"))
    else:
        obs.append(inconclusive(rule, f"{pairname}: prologues have the same paths", where, construct=f"{ckey}::prologue"))
    # ---- epilogue
    ps.returns = True
    epi_s = list(ps.paths([it for it in post_s if it[0] != 'return'], env_for(ss), [], []))
    ps.returns = False
    ret_node_top = next((it for it in post_s if it[0] == 'return'), None)
    params = [a.arg for a in single.node.args.args]
    t_start, t_end = params[2], params[3]
    for n_path, (e_s, st_s, c_s) in enumerate(epi_s):
        inc = acc_inc(e_s, acc)
        dT = C.sub(C.atom(('n', t_end)), C.atom(('n', last)))
        if not linear:
            expect = C.mul(C.atom(('n', ys_name)), dT) if ys_name else None
            extra = ''
        else:
            # end value of the last piece: what the profile stores in its untrimmed epilogue branch
            E_fin = None
            for (e_p, st_p, c_p) in pp.paths([it for it in post_p if it[0] != 'return'], env_for(sp), [], []):
                recs = [r for k, r in st_p if k in varrs]
                if recs:
                    E_fin = recs[-1][2]
            expect = C.mul(C.scale(C.add(C.atom(('n', ys_name)), E_fin), C.const(1).__class__ and 1), dT) if (ys_name and E_fin is not None) else None
            if expect is not None:
                expect = C.scale(expect, '1/2')
            extra = f" (profile end value {C.show(E_fin) if E_fin is not None else '?'})"
        t = f"{pairname}: the last piece is integrated up to `{t_end}` with the same weight rule{extra}"
        if expect is not None and inc == expect:
            obs.append(ok(rule, t, where, construct=f"{ckey}::epilogue::{n_path}"))
        else:
            obs.append(violation(rule, t, where, key=f"{_fn(single)}::template::epilogue",
                                 detail=f"increment {C.show(inc)}; expected {C.show(expect) if expect is not None else '?'}"))
        ret_node = e_s.returned or ret_node_top
        if ret_node is not None:
            rv = C.canon_expr(ret_node[1], e_s)
            # returned: acc_final / (t_end - t_start)
            want = C.div(C.to_poly(e_s.get(acc)), C.sub(C.atom(('n', t_end)), C.atom(('n', t_start))))
            t = f"{pairname}: result is the accumulated integral divided by `{t_end} - {t_start}`"
            if rv == want:
                obs.append(ok(rule, t, where, construct=f"{ckey}::return"))
            else:
                obs.append(violation(rule, t, where, key=f"{_fn(single)}::template::return", detail=C.show(rv)))
    return obs


def r12_3_projections(eng: SiblingEngine, rule: str = 'R12.3', only: Optional[Set[str]] = None) -> List[Ob]:
    obs: List[Ob] = []
    for fam in eng.families:
        if fam.single is None:
            continue
        if only is not None and fam.single.name not in only and fam.py.name not in only:
            continue
        obs.extend(projection_obligations(eng, fam, rule))
    return obs
