"""Guard domain (engine D, domain 5): R18.1 / R05.3 every division by a summed multiplicity or by a spike count
is dominated by a zero test on the *same* variable; R05.4 the guarded alternative returns a literal."""
from __future__ import annotations

import ast
from typing import Dict, List, Optional, Set, Tuple

from .frontend import FuncInfo
from .report import Ob, ok, violation, inconclusive, info
from .wrappers import WrapperModel, wrapper_model, _fn

# divisor classes that are positive for every admissible input, with the reason
POSITIVE_REASONS = {
    'pair-count': 'number of pairs of >= 2 trains (len(pairs), M)',
    'train-count-1': 'number of (selected) trains minus one, >= 1 for >= 2 trains',
    'count': 'length of a non-empty list (profiles, pooled ISI lengths: every train contributes >= 1 interval)',
    'interval-length': 'length of an interval with a < b (support x[-1]-x[0], averaging interval, piece width)',
    'event-multiplicity': 'per-event multiplicity: >= 1 by construction (np.ones initialisation, sums of such)',
    'parameter': 'user-supplied positive parameter (rate, bin size)',
}


def _parents(root: ast.AST) -> Dict[ast.AST, ast.AST]:
    par = {}
    for n in ast.walk(root):
        for c in ast.iter_child_nodes(n):
            par[c] = n
    return par


def _two_tuple_returning(wm: WrapperModel, fi: FuncInfo, call: ast.Call, depth: int = 0) -> bool:
    """call returns a (value, multiplicity) pair: a kernel alias of a single-pass discrete kernel, a repo function
    whose returns are 2-tuples, or `.integral(...)` of a discrete profile."""
    f = call.func
    if isinstance(f, ast.Attribute) and f.attr == 'integral':
        return True
    for t, _ in wm.callees(fi, call):
        rets = [n for n in ast.walk(t.node) if isinstance(n, ast.Return) and n.value is not None]
        if rets and all(isinstance(r.value, ast.Tuple) and len(r.value.elts) == 2 or
                        (isinstance(r.value, ast.Call) and isinstance(r.value.func, ast.Attribute) and r.value.func.attr == 'integral')
                        for r in rets):
            # (a pair whose second component is a number of pairs / of list entries - `return profile, len(pairs)` - is
            # the summed profile with its pair count, not a (value, multiplicity) pair)
            seconds = [r.value.elts[1] for r in rets if isinstance(r.value, ast.Tuple)]
            if seconds and len(seconds) == len(rets) and depth < 2 and \
                    all(classify_expr(wm, t, e2, depth + 2) in ('pair-count', 'count') for e2 in seconds):
                continue
            return True
    if isinstance(f, ast.Name) and f.id in wm.kernel_aliases(fi):
        return True
    return False


def classify_name(wm: WrapperModel, fi: FuncInfo, name: str, depth: int = 0) -> Optional[str]:
    """class of the values a local name may hold when used as a divisor"""
    if depth > 3:
        return None
    classes: Set[str] = set()
    params = [a.arg for a in fi.node.args.args]
    if name in params:
        if name in ('rate', 'bin_size', 'time_bin', 'fac'):
            return 'parameter'
        if name in ('x0', 'x1'):
            return None
    for n in ast.walk(fi.node):
        if isinstance(n, ast.Assign):
            for tg in n.targets:
                if isinstance(tg, ast.Tuple) and len(tg.elts) == 2 and isinstance(tg.elts[1], ast.Name) and tg.elts[1].id == name \
                        and isinstance(n.value, ast.Call) and _two_tuple_returning(wm, fi, n.value, depth):
                    classes.add('multiplicity')
                elif isinstance(tg, ast.Tuple) and len(tg.elts) == 2 and isinstance(tg.elts[1], ast.Name) and tg.elts[1].id == name \
                        and isinstance(n.value, ast.Call):
                    # (profile, M) = _generic_profile_multi(...)
                    classes.add('pair-count')
                elif isinstance(tg, ast.Name) and tg.id == name:
                    v = n.value
                    if isinstance(v, ast.Constant) and isinstance(v.value, (int, float)):
                        continue    # accumulator initialisation
                    c = classify_expr(wm, fi, v, depth + 1)
                    if c:
                        classes.add(c)
        elif isinstance(n, ast.AugAssign) and isinstance(n.target, ast.Name) and n.target.id == name and isinstance(n.op, ast.Add):
            c = classify_expr(wm, fi, n.value, depth + 1)
            if c:
                classes.add(c)
    if 'multiplicity' in classes:
        return 'multiplicity'
    if 'spike-count' in classes:
        return 'spike-count'
    if len(classes) == 1:
        return next(iter(classes))
    return None


def classify_expr(wm: WrapperModel, fi: FuncInfo, e: ast.AST, depth: int = 0) -> Optional[str]:
    if isinstance(e, ast.Constant):
        return 'const' if isinstance(e.value, (int, float)) and e.value != 0 else None
    if isinstance(e, ast.Name):
        return classify_name(wm, fi, e.id, depth)
    s = ast.unparse(e)
    if isinstance(e, ast.Call) and isinstance(e.func, ast.Name) and e.func.id == 'len' and e.args:
        a = e.args[0]
        if isinstance(a, ast.Attribute) and a.attr == 'spikes':
            return 'spike-count'
        if isinstance(a, ast.Name):
            if 'pair' in a.id:
                return 'pair-count'
            return 'count'
    if isinstance(e, ast.BinOp) and isinstance(e.op, ast.Sub):
        ls = ast.unparse(e.left)
        if isinstance(e.right, ast.Constant) and e.right.value == 1 and isinstance(e.left, ast.Call) and \
                isinstance(e.left.func, ast.Name) and e.left.func.id == 'len':
            return 'train-count-1'
        # x[-1]-x[0], interval[1]-interval[0], ival[1]-ival[0], x1-x0
        if isinstance(e.left, ast.Subscript) and isinstance(e.right, ast.Subscript) and \
                ast.unparse(e.left.value) == ast.unparse(e.right.value):
            return 'interval-length'
        if isinstance(e.left, ast.Name) and isinstance(e.right, ast.Name) and {e.left.id, e.right.id} == {'x0', 'x1'}:
            return 'interval-length'
        if 'mp' in s:
            return 'event-multiplicity'
    if isinstance(e, ast.BinOp) and isinstance(e.op, ast.Add) and 'mp' in s:
        return 'event-multiplicity'
    if isinstance(e, ast.Attribute) and e.attr == 'mp':
        return 'event-multiplicity'
    if isinstance(e, ast.Subscript) and isinstance(e.value, ast.Attribute) and e.value.attr == 'mp':
        return 'event-multiplicity'
    if isinstance(e, ast.BinOp) and isinstance(e.op, ast.Mult):
        a, b = classify_expr(wm, fi, e.left, depth), classify_expr(wm, fi, e.right, depth)
        if a and b:
            return a if a != 'const' else b
    return None


def _is_zero(e: ast.AST) -> bool:
    return isinstance(e, ast.Constant) and not isinstance(e.value, bool) and e.value in (0, 0.0)


def _zero_test(test: ast.AST) -> Optional[Tuple[str, str]]:
    """`E == 0` -> (text of E, 'zero');  `E > 0`, `0 < E`, `E != 0` -> (text of E, 'nonzero'); `not <test>` flips.
    E is any expression (a variable, or e.g. `len(train.spikes)`), identified by its source text."""
    if isinstance(test, ast.UnaryOp) and isinstance(test.op, ast.Not):
        r = _zero_test(test.operand)
        if r:
            return r[0], 'zero' if r[1] == 'nonzero' else 'nonzero'
        return None
    if isinstance(test, ast.Compare) and len(test.ops) == 1:
        l, op, r = test.left, test.ops[0], test.comparators[0]
        if _is_zero(r) and not _is_zero(l):
            e = ast.unparse(l)
            if isinstance(op, ast.Eq):
                return e, 'zero'
            if isinstance(op, (ast.Gt, ast.NotEq)):
                return e, 'nonzero'
            if isinstance(op, ast.LtE):
                return e, 'zero-or-negative'
        if _is_zero(l) and not _is_zero(r):
            e = ast.unparse(r)
            if isinstance(op, ast.Eq):
                return e, 'zero'
            if isinstance(op, (ast.Lt, ast.NotEq)):
                return e, 'nonzero'
            if isinstance(op, ast.GtE):
                return e, 'zero-or-negative'
    return None


def guard_of(fi: FuncInfo, node: ast.AST, par: Dict[ast.AST, ast.AST]) -> Tuple[Optional[str], Optional[ast.AST], Optional[list]]:
    """(tested variable, If node, statements of the zero branch) of the innermost zero test that dominates `node`:
    an enclosing if/else or conditional expression, or an earlier `if v == 0: return ...` in an enclosing block."""
    cur = node
    while cur in par:
        p = par[cur]
        if isinstance(p, ast.If):
            zt = _zero_test(p.test)
            if zt:
                in_body = any(cur is s for s in p.body)
                in_else = any(cur is s for s in p.orelse)
                if zt[1] in ('zero', 'zero-or-negative') and in_else:
                    return zt[0], p, p.body
                if zt[1] == 'nonzero' and in_body:
                    # the zero alternative: the else branch, or - for an early exit - what follows the `if`
                    alt = p.orelse
                    if not alt and p in par:
                        for fld in ('body', 'orelse'):
                            blk = getattr(par[p], fld, None)
                            if isinstance(blk, list) and any(p is s_ for s_ in blk):
                                k_ = [i for i, s_ in enumerate(blk) if s_ is p][0]
                                alt = blk[k_ + 1:]
                    return zt[0], p, alt
        if isinstance(p, ast.IfExp):
            zt = _zero_test(p.test)
            if zt:
                if zt[1] == 'nonzero' and cur is p.body:
                    return zt[0], p, [p.orelse]
                if zt[1] == 'zero' and cur is p.orelse:
                    return zt[0], p, [p.body]
        # earlier sibling `if v == 0: return`
        for fld in ('body', 'orelse'):
            blk = getattr(p, fld, None)
            if isinstance(blk, list) and any(cur is s for s in blk):
                k = [i for i, s in enumerate(blk) if s is cur][0]
                for s in blk[:k]:
                    if isinstance(s, ast.If):
                        zt = _zero_test(s.test)
                        if zt and zt[1] in ('zero', 'zero-or-negative') and s.body and isinstance(s.body[-1], (ast.Return, ast.Raise)):
                            return zt[0], s, s.body
        cur = p
    return None, None, None


def r18_1_guarded_divisions(ctx, rule: str = 'R18.1', rule_lit: str = 'R05.4', modules: Optional[Set[str]] = None) -> List[Ob]:
    wm = wrapper_model(ctx)
    obs: List[Ob] = []
    for f in wm.funcs:
        if modules is not None and f.module not in modules:
            continue
        if '.' in f.name and not f.cls:
            continue
        par = _parents(f.node)
        fn = _fn(f)
        for n in ast.walk(f.node):
            div = None
            if isinstance(n, ast.BinOp) and isinstance(n.op, ast.Div):
                div = n.right
            elif isinstance(n, ast.AugAssign) and isinstance(n.op, ast.Div):
                div = n.value
            if div is None:
                continue
            # skip divisions inside nested function definitions (analysed with their own roles)
            cls = classify_expr(wm, f, div)
            dtxt = ast.unparse(div)
            if cls not in ('multiplicity', 'spike-count') and cls not in POSITIVE_REASONS and cls != 'const' \
                    and isinstance(div, ast.Name):
                # a parameter of a helper: what the callers pass for it decides (a count handed to a helper is still a count;
                # `try: a/b except ZeroDivisionError` is no guard - numpy scalars divide to nan/inf without raising)
                ps_ = [a_.arg for a_ in f.node.args.args]
                if div.id in ps_ and not any(isinstance(x, ast.Name) and x.id == div.id and isinstance(x.ctx, ast.Store)
                                               for x in ast.walk(f.node)):
                    k_ = ps_.index(div.id)
                    site_classes = set()
                    for g in wm.funcs:
                        for c_ in ast.walk(g.node):
                            if isinstance(c_, ast.Call) and any(t_.qual == f.qual for t_, _ in wm.callees(g, c_)):
                                arg = c_.args[k_] if k_ < len(c_.args) else next((kw.value for kw in c_.keywords if kw.arg == div.id), None)
                                if arg is not None:
                                    c2 = classify_expr(wm, g, arg)
                                    if c2 in ('multiplicity', 'spike-count'):
                                        cls = c2
                                        site_classes.add(c2)
                    if site_classes == {'multiplicity', 'spike-count'}:
                        # one helper divides by a summed multiplicity for one caller and by a spike count for another: the two
                        # have different conventions for "nothing to count" (1 resp. 0), a single zero branch cannot serve both
                        cls = 'multiplicity'
            if cls in ('multiplicity', 'spike-count'):
                t = (f"{f.name}: division by the {'summed multiplicity' if cls == 'multiplicity' else 'spike count'} "
                     f"`{dtxt}` is dominated by a zero test on that same variable")
                v, gnode, zero_branch = guard_of(f, n, par)
                dname = ast.unparse(div)
                if v is not None and v == dname:
                    obs.append(ok(rule, t, f.loc(n), construct=f"{fn}::div::{dtxt}"))
                    # R05.4: the zero alternative yields a literal
                    lit = None
                    for s in zero_branch or []:
                        if isinstance(s, ast.Return) and isinstance(s.value, ast.Constant):
                            lit = s.value.value
                        elif isinstance(s, ast.Constant):
                            lit = s.value
                    t2 = f"{f.name}: when `{dtxt}` is 0 (nothing to count) the result is the conventional literal"
                    want_one = 'sync' in f.module or 'Discrete' in f.module or 'order' in f.name or \
                        (cls == 'multiplicity' and f.name.startswith('_'))
                    if lit is not None and (not want_one or lit in (1, 1.0)):
                        obs.append(ok(rule_lit, t2, f.loc(gnode), construct=f"{fn}::zero-branch::{dtxt}", detail=repr(lit)))
                    elif lit is not None:
                        obs.append(violation(rule_lit, t2 + ' 1 (SPIKE-Sync of nothing is 1)', f.loc(gnode),
                                             key=f"{fn}::zero-branch-literal::{dtxt}", detail=f"returns {lit!r}"))
                    else:
                        obs.append(violation(rule_lit, t2, f.loc(gnode), key=f"{fn}::zero-branch-not-literal::{dtxt}"))
                elif v is not None:
                    obs.append(violation(rule, t, f.loc(n), key=f"{fn}::div::{dtxt}::guarded-by::{v}",
                                         detail=f"`{ast.unparse(n)[:80]}`: the dominating zero test is on `{v}`, not on `{dtxt}`"))
                else:
                    obs.append(violation(rule, t, f.loc(n), key=f"{fn}::div::{dtxt}::unguarded",
                                         detail=f"`{ast.unparse(n)[:80]}` is reached with `{dtxt}` == 0 when the trains have no spikes"))
            elif cls in POSITIVE_REASONS or cls == 'const':
                if cls != 'const':
                    obs.append(ok(rule, f"{f.name}: divisor `{dtxt}` is positive for admissible input: {POSITIVE_REASONS[cls]}",
                                  f.loc(n), construct=f"{fn}::div::{dtxt}"))
            else:
                obs.append(info(rule, f"{f.name}: divisor `{dtxt}` not classified (no multiplicity / spike count flows into it)",
                                f.loc(n)))
    return obs
