"""Idiom recognisers: cursor-merge loops of the measure kernels (lemma L1) and the add-merge loops
of the three `add` kernels.  A recogniser returns the *roles* (cursors, bounds, arrays, branch
bodies) found in the code plus obligations for the premises of the lemma; the comparer only
uses cursor facts for loops whose premises were all discharged.
"""
from __future__ import annotations

import ast
from dataclasses import dataclass, field
from typing import Dict, List, Optional, Tuple

from . import canon as C
from .canon import Env
from .compare import guards_exclusive
from .frontend import FuncInfo
from .ir import IRBuilder, assigned_names
from .report import Ob, ok, violation, inconclusive


@dataclass
class MergeRoles:
    fi: FuncInfo
    kind: str                       # 'cursor' | 'add'
    loop: tuple                     # IR while item
    chain: tuple                    # IR if item (two alternatives + else)
    c1: str = ''
    c2: str = ''
    n1: str = ''                    # bound names (N1, N2) or canonical bound terms for add loops
    n2: str = ''
    arr1: Optional[str] = None      # array whose length is n1 (from `N1 = len(arr1)`)
    arr2: Optional[str] = None
    x: Optional[C.Term] = None      # left operand of the strict comparison (train-1 side)
    y: Optional[C.Term] = None
    body: list = field(default_factory=list)
    pre: list = field(default_factory=list)      # items before the loop
    post: list = field(default_factory=list)     # items after the loop
    ok: bool = False                # all premises discharged


def _find_loops(items: list, acc: list, pre_stack: list):
    for k, it in enumerate(items):
        if it[0] == 'while':
            acc.append((it, items[:k], items[k + 1:]))
        if it[0] in ('if',):
            for _, body, _n in it[1]:
                _find_loops(body, acc, pre_stack)
            _find_loops(it[2], acc, pre_stack)
        elif it[0] in ('for',):
            _find_loops(it[3], acc, pre_stack)


def _len_bindings(items: list) -> Dict[str, ast.AST]:
    """name -> value node for top-level single assignments `N = <expr>`"""
    out: Dict[str, ast.AST] = {}
    for it in items:
        if it[0] == 'simple' and isinstance(it[1], ast.Assign) and len(it[1].targets) == 1 \
                and isinstance(it[1].targets[0], ast.Name):
            out[it[1].targets[0].id] = it[1].value
    return out


def _incr_of(body: list, name: str) -> Optional[List[int]]:
    """List of constant increments applied to `name` by direct simple statements of a branch body
    (None if assigned in any other way)."""
    incs: List[int] = []
    for it in body:
        if it[0] == 'simple':
            st = it[1]
            if isinstance(st, ast.AugAssign) and isinstance(st.target, ast.Name) and st.target.id == name:
                if isinstance(st.op, (ast.Add, ast.Sub)) and isinstance(st.value, ast.Constant) \
                        and isinstance(st.value.value, int):
                    incs.append(st.value.value if isinstance(st.op, ast.Add) else -st.value.value)
                else:
                    return None
            elif isinstance(st, ast.Assign):
                for t in st.targets:
                    for n in ast.walk(t):
                        if isinstance(n, ast.Name) and n.id == name and isinstance(n.ctx, ast.Store):
                            # x = x + 1 form
                            v = st.value
                            if isinstance(v, ast.BinOp) and isinstance(v.op, ast.Add) and \
                                    isinstance(v.left, ast.Name) and v.left.id == name and \
                                    isinstance(v.right, ast.Constant) and isinstance(v.right.value, int) \
                                    and isinstance(t, ast.Name):
                                incs.append(v.right.value)
                            else:
                                return None
        else:
            if name in assigned_names([it]):
                return None
    return incs


def _parse_bound_test(c: tuple) -> Optional[Tuple[str, str, int, str]]:
    """cmp atom `cursor - bound + k OP 0` -> (cursor, bound, k, op); cursor has coefficient +1,
    bound -1, both plain names."""
    if c[0] != 'cmp':
        return None
    p = c[2]
    cur = bnd = None
    k = 0
    for m, co in p[1]:
        if m == ():
            k = co
        elif len(m) == 1 and m[0][0] == 'n' and co == 1 and cur is None:
            cur = m[0][1]
        elif len(m) == 1 and m[0][0] == 'n' and co == -1 and bnd is None:
            bnd = m[0][1]
        else:
            return None
    if cur is None or bnd is None:
        return None
    if k.denominator != 1:
        return None
    return cur, bnd, int(k), c[1]


def _flatten_and(node: ast.AST) -> List[ast.AST]:
    if isinstance(node, ast.BoolOp) and isinstance(node.op, ast.And):
        out = []
        for v in node.values:
            out.extend(_flatten_and(v))
        return out
    return [node]


def _flatten_or(node: ast.AST) -> List[ast.AST]:
    if isinstance(node, ast.BoolOp) and isinstance(node.op, ast.Or):
        out = []
        for v in node.values:
            out.extend(_flatten_or(v))
        return out
    return [node]


def _chain_env(lp, chain) -> Env:
    """Values of the locals that the loop body binds in front of the branch chain (`next1 = x1[c1 + 1]`): the guards are
    read with these definitions substituted, so a comparison of cached operands is the comparison of the operands."""
    env = Env()
    for it in lp[2]:
        if it is chain:
            break
        if it[0] == 'simple' and isinstance(it[1], ast.Assign) and len(it[1].targets) == 1 and isinstance(it[1].targets[0], ast.Name):
            try:
                env.vals[it[1].targets[0].id] = C.canon_expr(it[1].value, env)
            except C.CanonError:
                pass
        elif it[0] == 'simple' and isinstance(it[1], ast.AugAssign):
            # a counter stepped in front of the chain (`index += 1`): the guards do not depend on it
            continue
        elif it[0] in ('if', 'while', 'for', 'try'):
            break
    return env


def recognise_cursor_merge(fi: FuncInfo, rule: str) -> Tuple[Optional[MergeRoles], List[Ob]]:
    """The loop `while c1+c2 < N1+N2-2:` with the three-way branch (lemma L1)."""
    obs: List[Ob] = []
    bld = IRBuilder()
    items = bld.build(fi.node.body)
    loops: list = []
    _find_loops(items, loops, [])
    cand = None
    for lp, pre, post in loops:
        chains = [it for it in lp[2] if it[0] == 'if' and len(it[1]) == 2]
        if chains:
            cand = (lp, pre, post, chains[0])
            break
    fn = f"{fi.path}::{fi.name}"
    if cand is None:
        return None, [inconclusive(rule, 'cursor-merge loop present', fi.loc(), f'{fn}: no while loop with a '
                                   'two-alternative if/elif/else chain found', construct=fn)]
    lp, pre, post, chain = cand
    env = _chain_env(lp, chain)
    roles = MergeRoles(fi, 'cursor', lp, chain, body=lp[2], pre=pre, post=post)
    where = fi.loc(lp[-1])
    try:
        gA = C.canon_cond(chain[1][0][0], env)
        gB = C.canon_cond(chain[1][1][0], env)
        lt = C.canon_cond(lp[1], env)
    except C.CanonError as e:
        return None, [inconclusive(rule, 'cursor-merge guards canonicalisable', where, str(e), construct=fn)]

    def split(g, node):
        conj = _flatten_and(node)
        if len(conj) != 2:
            return None
        if isinstance(conj[0], ast.BoolOp) and isinstance(conj[0].op, ast.Or) and not (
                isinstance(conj[1], ast.BoolOp) and isinstance(conj[1].op, ast.Or)):
            conj = [conj[1], conj[0]]       # the two conjuncts in either order
        first = C.canon_cond(conj[0], env)
        second_nodes = _flatten_or(conj[1])
        if len(second_nodes) != 2:
            return None
        seconds = [C.canon_cond(x, env) for x in second_nodes]
        return first, seconds, second_nodes, conj

    sA = split(gA, chain[1][0][0])
    sB = split(gB, chain[1][1][0])
    if sA is None or sB is None:
        return None, [inconclusive(rule, 'cursor-merge guards have the form (bound test) and (end test or '
                                   'strict comparison)', where, f"A={C.show(gA)} B={C.show(gB)}", construct=fn)]
    bA = _parse_bound_test(sA[0])
    bB = _parse_bound_test(sB[0])
    if bA is None or bB is None:
        return None, [inconclusive(rule, 'first conjunct of each guard is `cursor < bound - 1`', where,
                                   f"A={C.show(sA[0])} B={C.show(sB[0])}", construct=fn)]
    roles.c1, roles.n1 = bA[0], bA[1]
    roles.c2, roles.n2 = bB[0], bB[1]
    c1, c2, n1, n2 = roles.c1, roles.c2, roles.n1, roles.n2
    A = lambda *a, **k: obs.append(a[0])

    def req(cond: bool, title: str, node, detail: str, keypart: str):
        loc = fi.loc(node)
        if cond:
            obs.append(ok(rule, title, loc, construct=f"{fn}::{keypart}"))
        else:
            obs.append(violation(rule, title, loc, key=f"{fn}::{keypart}", detail=detail))
        return cond

    good = True
    # (a) loop condition  c1 + c2 < N1 + N2 - 2
    exp_loop = C.mk_cmp('lt', C.add(C.atom(('n', c1)), C.atom(('n', c2))),
                        C.add(C.add(C.atom(('n', n1)), C.atom(('n', n2))), C.const(-2)))
    # the same condition spelled per train: since a cursor only advances under its own `cursor < N-1` guard (checked
    # below) and starts at -1 or 0, it never exceeds N-1, so `c1+c2 < N1+N2-2` holds exactly when one of the two
    # cursors is still below its bound
    alt_loop = C.mk_bool('or', [C.mk_cmp('lt', C.atom(('n', c1)), C.add(C.atom(('n', n1)), C.const(-1))),
                                C.mk_cmp('lt', C.atom(('n', c2)), C.add(C.atom(('n', n2)), C.const(-1)))])
    good &= req(lt in (exp_loop, alt_loop), 'merge loop runs while c1+c2 < N1+N2-2 (every spike of both trains is consumed, '
                'none twice)', lp[1], f"found {C.show(lt)}, expected {C.show(exp_loop)}", 'loop-condition')
    # (b) first conjuncts: strict, offset +1
    for tag, b, node in (('A', bA, sA[3][0]), ('B', bB, sB[3][0])):
        good &= req(b[2] == 1 and b[3] == 'lt', f'guard {tag}: bound test is the strict `cursor < N-1`', node,
                    f"found {ast.unparse(node)}", f'guard{tag}-bound')
    # (c) second conjunct: {end test of the other cursor, strict comparison X<Y / X>Y}
    def classify(seconds, nodes, other_c, other_n):
        endt = strict = None
        endpos = strictpos = None
        for k, (s, nd) in enumerate(zip(seconds, nodes)):
            pb = _parse_bound_test(s) if s[0] == 'cmp' and s[1] in ('eq',) else None
            if s[0] == 'cmp' and s[1] == 'eq':
                endt, endpos = (s, nd), k
            elif s[0] == 'cmp' and s[1] in ('lt', 'le'):
                strict, strictpos = (s, nd), k
        return endt, strict, endpos, strictpos

    eA, stA, eposA, sposA = classify(sA[1], sA[2], c2, n2)
    eB, stB, eposB, sposB = classify(sB[1], sB[2], c1, n1)
    if None in (eA, stA, eB, stB):
        obs.append(inconclusive(rule, 'second conjunct is (end test of the other cursor) or (strict comparison)',
                                where, f"A={C.show(gA)} B={C.show(gB)}", construct=fn))
        return roles, obs
    exp_endA = C.mk_cmp('eq', C.atom(('n', c2)), C.add(C.atom(('n', n2)), C.const(-1)))
    exp_endB = C.mk_cmp('eq', C.atom(('n', c1)), C.add(C.atom(('n', n1)), C.const(-1)))
    good &= req(eA[0] == exp_endA, 'guard A: end test is `c2 == N2-1`', eA[1],
                f"found {C.show(eA[0])}, expected {C.show(exp_endA)}", 'guardA-end')
    good &= req(eB[0] == exp_endB, 'guard B: end test is `c1 == N1-1`', eB[1],
                f"found {C.show(eB[0])}, expected {C.show(exp_endB)}", 'guardB-end')
    good &= req(stA[0][1] == 'lt', 'guard A: next-spike comparison is strict (a shared spike time takes the '
                'both-advance branch: one breakpoint per distinct time)', stA[1], f"found {ast.unparse(stA[1])}",
                'guardA-strict')
    good &= req(stB[0][1] == 'lt', 'guard B: next-spike comparison is strict', stB[1],
                f"found {ast.unparse(stB[1])}", 'guardB-strict')
    # X < Y in A and Y < X in B over the same two operands
    pA, pB = stA[0][2], stB[0][2]
    good &= req(pA == C.neg(pB), 'guards A and B compare the same two next-spike times in opposite directions',
                stB[1], f"A: {C.show(pA)} < 0, B: {C.show(pB)} < 0", 'guards-opposite')
    # operands: X belongs to train 1 (index c1+1 or a scalar), Y to train 2
    its = pA[1]
    if len(its) == 2 and all(len(m) == 1 for m, _ in its):
        pos = [m[0] for m, co in its if co > 0]
        negs = [m[0] for m, co in its if co < 0]
        if len(pos) == 1 and len(negs) == 1:
            roles.x, roles.y = C.atom(pos[0]), C.atom(negs[0])
            # array reads must be at cursor+1 of the train whose bound test guards them
            for t, cur, tag in ((pos[0], c1, 'X'), (negs[0], c2, 'Y')):
                if t[0] == 'sub':
                    exp_idx = C.add(C.atom(('n', cur)), C.ONE)
                    good &= req(t[2] == exp_idx, f'{tag} reads the next unconsumed spike `s[cursor+1]` of its own '
                                'train', stA[1], f"found index {C.show(t[2])}, expected {C.show(exp_idx)}",
                                f'operand-{tag}')
                    if tag == 'X':
                        roles.arr1 = t[1][1] if t[1][0] == 'n' else None
                    else:
                        roles.arr2 = t[1][1] if t[1][0] == 'n' else None
            # short-circuit order: in guard A the read of train 2 at c2+1 needs `c2 == N2-1` tested first
            if negs[0][0] == 'sub':
                good &= req(eposA < sposA, 'guard A: end test of train 2 precedes the array read `s2[c2+1]` '
                            '(short-circuit protects the read)', sA[3][1], f"found {ast.unparse(sA[3][1])}",
                            'guardA-order')
            if pos[0][0] == 'sub':
                good &= req(eposB < sposB, 'guard B: end test of train 1 precedes the array read `s1[c1+1]`',
                            sB[3][1], f"found {ast.unparse(sB[3][1])}", 'guardB-order')
    # (e) exclusivity by truth table over the order theory of the guard atoms
    good &= req(guards_exclusive([gA, gB]), 'guards A and B are mutually exclusive (truth table over <,==,> of '
                'each compared pair)', chain[-1], f"A={C.show(gA)} B={C.show(gB)}", 'exclusive')
    # (f) cursor increments
    bodyA, bodyB, bodyE = chain[1][0][1], chain[1][1][1], chain[2]
    for tag, body, e1, e2 in (('A', bodyA, [1], []), ('B', bodyB, [], [1]), ('else', bodyE, [1], [1])):
        i1, i2 = _incr_of(body, c1), _incr_of(body, c2)
        node = body[0][-1] if body and isinstance(body[0][-1], ast.AST) else chain[-1]
        if body and body[0][0] == 'simple':
            node = body[0][1]
        good &= req(i1 == e1 and i2 == e2, f'branch {tag}: advances ' +
                    {'A': 'only cursor 1', 'B': 'only cursor 2', 'else': 'both cursors'}[tag] + ' by exactly 1',
                    node, f"increments of {c1}: {i1}, of {c2}: {i2}", f'branch{tag}-increments')
    # cursors are not modified anywhere else in the loop body
    others = [it for it in lp[2] if it is not chain]
    wr = assigned_names(others)
    good &= req(not ({c1, c2} & wr), 'cursors are modified only inside the three-way branch', lp[-1],
                f"also assigned in: {sorted({c1, c2} & wr)}", 'cursor-writes')
    # (g) bounds are lengths of the arrays read through the cursors; assigned once
    binds = _len_bindings(items)
    for nm, arr, tag in ((n1, roles.arr1, '1'), (n2, roles.arr2, '2')):
        v = binds.get(nm)
        is_len = isinstance(v, ast.Call) and isinstance(v.func, ast.Name) and v.func.id == 'len' and \
            len(v.args) == 1 and isinstance(v.args[0], ast.Name)
        cnt = sum(1 for x in ast.walk(fi.node) if isinstance(x, ast.Name) and x.id == nm and
                  isinstance(x.ctx, ast.Store))
        good &= req(is_len and cnt == 1, f'bound N{tag} is `len(<train {tag} array>)`, assigned once',
                    v if v is not None else fi.node, f"{nm} = {ast.unparse(v) if v is not None else '?'} "
                    f"(assigned {cnt}x)", f'bound{tag}')
        if is_len:
            a = v.args[0].id
            if arr is None:
                if tag == '1':
                    roles.arr1 = a
                else:
                    roles.arr2 = a
            elif arr != a:
                # alias such as t1 = spikes1 is resolved by the callers; compare through simple aliases
                al = binds.get(arr)
                if not (isinstance(al, ast.Name) and al.id == a) and not \
                        (isinstance(binds.get(a), ast.Name) and binds[a].id == arr):
                    good &= req(False, f'bound N{tag} is the length of the array read through cursor {tag}',
                                v, f"{nm} = len({a}) but the guard reads {arr}", f'bound{tag}-array')
    # (h) cursor initialisation: -1 or 0 (assignments before the loop)
    for cur, tag in ((c1, '1'), (c2, '2')):
        vals = []
        for x in ast.walk(ast.Module(body=[n for n in fi.node.body], type_ignores=[])):
            if isinstance(x, ast.Assign) and len(x.targets) == 1 and isinstance(x.targets[0], ast.Name) \
                    and x.targets[0].id == cur:
                if any(isinstance(y, ast.Name) and y.id == cur for y in ast.walk(x.value)):
                    continue        # an increment spelled `c = c + 1` (checked by the branch rules)
                try:
                    vals.append(ast.literal_eval(x.value))
                except Exception:
                    vals.append('?')
        good &= req(bool(vals) and all(v in (-1, 0) for v in vals), f'cursor {tag} starts at -1 (or 0 when the '
                    'first spike sits on the start edge)', fi.node, f"initial values of {cur}: {vals}",
                    f'cursor{tag}-init')
    roles.ok = good
    return roles, obs


def recognise_add_merge(fi: FuncInfo, rule: str) -> Tuple[Optional[MergeRoles], List[Ob]]:
    """The loop `while (c1+1 < L1) and (c2+1 < L2):` with `if a < b / elif a > b / else`."""
    obs: List[Ob] = []
    bld = IRBuilder()
    items = bld.build(fi.node.body)
    loops: list = []
    _find_loops(items, loops, [])
    fn = f"{fi.path}::{fi.name}"
    cand = None
    for lp, pre, post in loops:
        chains = [it for it in lp[2] if it[0] == 'if' and len(it[1]) == 2]
        if chains:
            cand = (lp, pre, post, chains[0])
            break
    if cand is None:
        return None, [inconclusive(rule, 'add-merge loop present', fi.loc(), f'{fn}: not found', construct=fn)]
    lp, pre, post, chain = cand
    env = Env()
    roles = MergeRoles(fi, 'add', lp, chain, body=lp[2], pre=pre, post=post)

    def req(cond: bool, title: str, node, detail: str, keypart: str):
        loc = fi.loc(node)
        if cond:
            obs.append(ok(rule, title, loc, construct=f"{fn}::{keypart}"))
        else:
            obs.append(violation(rule, title, loc, key=f"{fn}::{keypart}", detail=detail))
        return cond

    conj = _flatten_and(lp[1])
    if len(conj) != 2:
        return None, [inconclusive(rule, 'add-merge loop condition is a conjunction of two bound tests',
                                   fi.loc(lp[-1]), ast.unparse(lp[1]), construct=fn)]
    good = True
    curs = []
    for k, cnode in enumerate(conj):
        c = C.canon_cond(cnode, env)
        # cursor + 1 < L   (L any term without the cursor)
        okc = False
        if c[0] == 'cmp':
            p = c[2]
            names = [(m[0][1], co) for m, co in p[1] if len(m) == 1 and m[0][0] == 'n' and co == 1]
            # the cursor is the name that the branch bodies increment
            for nm, co in names:
                incs = [_incr_of(b, nm) for b in (chain[1][0][1], chain[1][1][1], chain[2])]
                if any(i for i in incs if i):
                    rest = C.sub(p, C.atom(('n', nm)))     # cursor + rest < 0
                    curs.append((nm, rest, c[1], cnode))
                    okc = True
                    break
        if not okc:
            return None, [inconclusive(rule, 'add-merge bound test has the form `cursor+1 < L`', fi.loc(cnode),
                                       ast.unparse(cnode), construct=fn)]
    (c1, r1, op1, nd1), (c2, r2, op2, nd2) = curs
    roles.c1, roles.c2 = c1, c2
    for tag, rest, op, nd in (('1', r1, op1, nd1), ('2', r2, op2, nd2)):
        kconst = sum((co for m, co in rest[1] if m == ()), start=0)
        good &= req(op == 'lt', f'operand {tag}: bound test is strict', nd, ast.unparse(nd), f'bound{tag}-strict')
    genv = _chain_env(lp, chain)
    gA = C.canon_cond(chain[1][0][0], genv)
    gB = C.canon_cond(chain[1][1][0], genv)
    good &= req(gA[0] == 'cmp' and gA[1] == 'lt', 'branch 1 guard is the strict `x1[c1+1] < x2[c2+1]`',
                chain[1][0][0], C.show(gA), 'guardA-strict')
    good &= req(gB[0] == 'cmp' and gB[1] == 'lt', 'branch 2 guard is the strict `x1[c1+1] > x2[c2+1]`',
                chain[1][1][0], C.show(gB), 'guardB-strict')
    if gA[0] == 'cmp' and gB[0] == 'cmp':
        good &= req(gA[2] == C.neg(gB[2]), 'the two guards compare the same two breakpoints in opposite directions',
                    chain[1][1][0], f"A: {C.show(gA)}, B: {C.show(gB)}", 'guards-opposite')
        its = gA[2][1]
        if len(its) == 2 and all(len(m) == 1 and m[0][0] == 'sub' for m, _ in its):
            pos = [m[0] for m, co in its if co > 0][0]
            ng = [m[0] for m, co in its if co < 0][0]
            roles.x, roles.y = C.atom(pos), C.atom(ng)
            roles.arr1 = pos[1][1] if pos[1][0] == 'n' else None
            roles.arr2 = ng[1][1] if ng[1][0] == 'n' else None
            good &= req(pos[2] == C.add(C.atom(('n', c1)), C.ONE) and ng[2] == C.add(C.atom(('n', c2)), C.ONE),
                        'guards read the next breakpoint `x[c+1]` of each operand', chain[1][0][0],
                        f"{C.show(pos)} vs {C.show(ng)}", 'operands')
        else:
            good &= req(False, 'guards compare one breakpoint of each operand', chain[1][0][0], C.show(gA), 'operands')
    bodyA, bodyB, bodyE = chain[1][0][1], chain[1][1][1], chain[2]
    for tag, body, e1, e2 in (('1', bodyA, [1], []), ('2', bodyB, [], [1]), ('tie', bodyE, [1], [1])):
        i1, i2 = _incr_of(body, c1), _incr_of(body, c2)
        node = body[0][1] if body and body[0][0] == 'simple' else chain[-1]
        good &= req(i1 == e1 and i2 == e2, f'branch {tag}: advances ' +
                    {'1': 'only cursor 1', '2': 'only cursor 2', 'tie': 'both cursors'}[tag] + ' by exactly 1',
                    node, f"increments of {c1}: {i1}, of {c2}: {i2}", f'branch{tag}-increments')
    others = [it for it in lp[2] if it is not chain]
    wr = assigned_names(others)
    good &= req(not ({c1, c2} & wr), 'cursors are modified only inside the three-way branch', lp[-1],
                f"also assigned in: {sorted({c1, c2} & wr)}", 'cursor-writes')
    # cursors start at 0
    for cur, tag in ((c1, '1'), (c2, '2')):
        vals = []
        for it in pre:
            if it[0] == 'simple' and isinstance(it[1], ast.Assign) and len(it[1].targets) == 1 and \
                    isinstance(it[1].targets[0], ast.Name) and it[1].targets[0].id == cur:
                try:
                    vals.append(ast.literal_eval(it[1].value))
                except Exception:
                    vals.append('?')
        good &= req(vals == [0], f'cursor {tag} starts at 0', fi.node, f"{cur} initialised to {vals}",
                    f'cursor{tag}-init')
    # tail copy: `if <operand 1 not exhausted>: ... elif <operand 2 not exhausted>: ... else: both ended`, with exactly the
    # two bound tests of the loop condition, in that order
    tails = [it for it in post if it[0] == 'if' and len(it[1]) == 2]
    if tails:
        tail = tails[0]
        try:
            g1 = C.canon_cond(tail[1][0][0], env)
            g2 = C.canon_cond(tail[1][1][0], env)
            l1 = C.canon_cond(conj[0], env)
            l2 = C.canon_cond(conj[1], env)
            good &= req(g1 == l1, 'tail copy, first alternative: taken exactly when operand 1 still has pieces (the first bound '
                        'test of the loop)', tail[1][0][0], f"found {C.show(g1)}, loop test {C.show(l1)}", 'tail-guard1')
            good &= req(g2 == l2, 'tail copy, second alternative: taken exactly when operand 2 still has pieces (the second bound '
                        'test of the loop)', tail[1][1][0], f"found {C.show(g2)}, loop test {C.show(l2)}", 'tail-guard2')
        except C.CanonError as e:
            obs.append(inconclusive(rule, 'tail-copy guards canonicalisable', fi.loc(tail[-1]), str(e), construct=fn))
    else:
        obs.append(inconclusive(rule, 'tail-copy if/elif/else found after the merge loop', fi.loc(), construct=fn))
    roles.ok = good
    return roles, obs
